"""C52 — observable grouping returns a partition whose groups satisfy the chosen relation; QWC groups diagonalise."""
from collections import Counter

import numpy as np
from hypothesis import strategies as st

from pv import gen
from pv.cmp import close, maxdiff
from pv.engine import Reject, Result, Viol
from pv.ref import pauli as P

ID = "C52"
TECHNIQUE = "hypothesis-generated Pauli-word lists x grouping type x colouring method vs symplectic pair test and dense conjugation"
RULE = (
    "Lists of 1-12 (thorough 20) Pauli-word operators on <= 5 labelled wires: single Paulis, prod / @ products (any "
    "factor order, optional explicit Identity factors), Identity(w), duplicates (same word, possibly written "
    "differently), optionally the wire-less Identity(); coefficients None / list / numpy array (all distinct); "
    "grouping_type in {qwc, commuting, anticommuting} x method in {lf, rlf, dsatur, gis}. Oracle: group_observables "
    "output is a list of non-empty groups whose multiset of (word, coefficient) equals the input; "
    "compute_partition_indices is a partition of range(len(obs)); every pair inside a group satisfies the relation "
    "(pv.ref.pauli symplectic test written from the definitions); PauliGroupingStrategy.adj_matrix off-diagonal == "
    "'relation not satisfied'; is_qwc / are_pauli_words_qwc agree with the reference; for every QWC group (members "
    "optionally scaled c*P) diagonalize_qwc_pauli_words returns gates D (unitary from pv.ref.sim) and Z-only "
    "observables with D (cP) D^dagger == matrix(returned observable) at 1e-10; a non-QWC list raises ValueError. "
    "Non-trivial: >= 3 observables, >= 2 groups and a group with >= 2 members."
)
ASSUMPTIONS = [
    "Observables are the documented input class (Pauli operators and tensor products thereof, no scalar factors) for "
    "grouping; scalar multiples are only passed to diagonalize_qwc_pauli_words, whose contract (is_pauli_word) admits SProd.",
    "Optimality of the colouring (number of groups) is not asserted.",
]
BUDGET = {"quick": {"examples": 2000}, "thorough": {"examples": 60000, "shards": 16}}
SHRINK_LISTS = ("obs", "w")
TOL = 1e-10
GTYPES = ["qwc", "commuting", "anticommuting"]
METHODS = ["lf", "rlf", "dsatur", "gis"]


@st.composite
def _obs(draw, n, prev):
    if prev and draw(st.integers(0, 4)) == 0:
        base = draw(st.sampled_from(prev))
        w = [list(x) for x in draw(st.permutations(base["w"]))] if base["w"] else []
        return {"w": w, "style": draw(st.sampled_from(["prod", "matmul"])), "pad": base["pad"]}
    k = draw(st.sampled_from([0, 1, 1, 2, 2, 3, n]))
    k = min(k, n)
    idx = list(draw(st.permutations(list(range(n)))))[:k]
    # bias towards few distinct letters per wire so that groups with several members exist
    w = [[i, draw(st.sampled_from(["X", "Y", "Z", "Z", ["X", "Y", "Z"][i % 3]]))] for i in idx]
    pad = draw(st.sampled_from([None, None, None, 0, 1]))  # wire index of an explicit Identity factor
    if pad is not None:
        pad = pad % n
        if pad in idx:
            pad = None
    return {"w": w, "style": draw(st.sampled_from(["prod", "matmul"])), "pad": pad}


@st.composite
def _case(draw, tier):
    n = draw(st.integers(1, 5))
    labels = draw(gen.wire_labels(5))[:n]
    m = draw(st.integers(1, 12 if tier == "quick" else 20))
    obs = []
    for _ in range(m):
        obs.append(draw(_obs(n, obs)))
    return {
        "labels": labels,
        "obs": obs,
        "nowire": draw(st.sampled_from([0, 0, 0, 0, 0, 1, 2])),  # number of wire-less Identity() observables appended/inserted
        "nowire_pos": draw(st.integers(0, 20)),
        "coeffs": draw(st.sampled_from([None, "list", "array", "array"])),
        "cperm": draw(st.integers(0, 10**6)),
        "gtype": draw(st.sampled_from(GTYPES)),
        "method": draw(st.sampled_from(METHODS)),
        "scale": draw(st.sampled_from([None, None, 2.0, -0.5, 3.0])),
    }


def strategy(tier):
    return _case(tier)


def enumerate_cases(tier):
    """All grouping types x methods on a few fixed lists, incl. the docstring examples."""
    lists = [
        [[[0, "Y"]], [[0, "X"], [1, "X"]], [[1, "Z"]]],
        [[[0, "X"], [1, "Z"]], [[0, "Z"]], [[1, "X"]]],
        [[[0, "X"]], [[0, "X"]], []],
        [[], []],
        [[[0, "X"]], [[0, "Y"]], [[0, "Z"]], []],
    ]
    for L in lists:
        for g in GTYPES:
            for m in METHODS:
                for co in (None, "list"):
                    yield {"labels": [0, 1], "obs": [{"w": w, "style": "prod", "pad": None} for w in L], "nowire": 0,
                           "nowire_pos": 0, "coeffs": co, "cperm": 1, "gtype": g, "method": m, "scale": None}


def _build(o, labels):
    import pennylane as qp

    cls = {"X": qp.PauliX, "Y": qp.PauliY, "Z": qp.PauliZ}
    facs = [cls[ch](labels[i]) for i, ch in o["w"]]
    if o["pad"] is not None:
        facs.append(qp.Identity(labels[o["pad"]]))
    if not facs:
        return qp.Identity(labels[0])
    if len(facs) == 1:
        return facs[0]
    if o["style"] == "prod":
        return qp.prod(*facs)
    out = facs[0]
    for f in facs[1:]:
        out = out @ f
    return out


def _word_of(op):
    """Reference word (dict) of an operator PennyLane returned: read from its pauli_rep key."""
    rep = op.pauli_rep
    if rep is None or len(rep) != 1:
        raise Viol("output-not-pauli-word", f"{op}")
    (pw, c), = rep.items()
    return dict(pw), c


def _relation(gtype, w1, w2):
    if gtype == "qwc":
        return P.qwc(w1, w2)
    if gtype == "commuting":
        return P.commutes(w1, w2)
    return not P.commutes(w1, w2)


def check(spec):
    import pennylane as qp
    from pennylane.pauli import (PauliGroupingStrategy, are_pauli_words_qwc, compute_partition_indices,
                                 diagonalize_qwc_pauli_words, group_observables, is_qwc)

    from pv.ref import sim

    labels = spec["labels"]
    gtype, method = spec["gtype"], spec["method"]
    ops = [_build(o, labels) for o in spec["obs"]]
    words = [{labels[i]: ch for i, ch in o["w"]} for o in spec["obs"]]
    for j in range(spec["nowire"]):
        pos = (spec["nowire_pos"] + 7 * j) % (len(ops) + 1)
        ops.insert(pos, qp.Identity())
        words.insert(pos, {})
    m = len(ops)
    nowire = spec["nowire"] > 0
    feats = {"gtype": gtype, "method": method, "no_wire_identity": nowire}
    sig = gtype + ("-nowire" if nowire else "")  # buckets by root cause; the method is in the features
    keys = [P.canon_word(w) for w in words]

    # coefficients: distinct values in a spec-determined order
    coeffs = None
    cvals = None
    if spec["coeffs"] is not None:
        cvals = [((spec["cperm"] + 37 * i) % 101) / 4 - 10 + i * 101 for i in range(m)]
        coeffs = list(cvals) if spec["coeffs"] == "list" else np.array(cvals)

    # ---------------- group_observables
    out = group_observables(ops, coeffs, grouping_type=gtype, method=method)
    if coeffs is None:
        groups, cgroups = out, None
    else:
        if not (isinstance(out, tuple) and len(out) == 2):
            raise Viol("return-shape", f"expected (groups, coeff_groups), got {type(out)}", sig=sig, features=feats)
        groups, cgroups = out
        if len(groups) != len(cgroups):
            raise Viol("return-shape", f"{len(groups)} groups but {len(cgroups)} coefficient groups", sig=sig, features=feats)
    gwords = []
    for gi, g in enumerate(groups):
        if len(g) == 0:
            raise Viol("empty-group", f"group {gi} is empty", sig=sig, features=feats)
        ws = []
        for op in g:
            w, c = _word_of(op)
            if abs(c - 1) > TOL:
                raise Viol("output-scaled", f"{op} carries coefficient {c}", sig=sig, features=feats)
            ws.append(w)
        gwords.append(ws)
    got = Counter(P.canon_word(w) for ws in gwords for w in ws)
    if got != Counter(keys):
        raise Viol("partition-multiset", f"observables in != out: in={Counter(keys)} out={got}", sig=sig, features=feats)
    if cgroups is not None:
        pairs = Counter()
        for ws, cs in zip(gwords, cgroups):
            cs = list(np.asarray(cs).tolist()) if not isinstance(cs, list) else cs
            if len(cs) != len(ws):
                raise Viol("coefficients", f"group of {len(ws)} observables has {len(cs)} coefficients", sig=sig, features=feats)
            for w, c in zip(ws, cs):
                pairs[(P.canon_word(w), float(c))] += 1
        want = Counter((k, float(c)) for k, c in zip(keys, cvals))
        # duplicates of a word may exchange coefficients only if they are the same word: compare per word
        if pairs != want:
            raise Viol("coefficients", f"(observable, coefficient) pairs changed: {sorted(map(str, (pairs - want).items()))} "
                       f"vs {sorted(map(str, (want - pairs).items()))}", sig=sig, features=feats)
        if spec["coeffs"] == "list" and not all(isinstance(c, list) for c in cgroups):
            raise Viol("coefficients", "list input but non-list coefficient groups", sig=sig, features=feats)
    for gi, ws in enumerate(gwords):
        for a in range(len(ws)):
            for b in range(a + 1, len(ws)):
                if not _relation(gtype, ws[a], ws[b]):
                    raise Viol("group-relation", f"group {gi}: {ws[a]} and {ws[b]} are not {gtype}", sig=sig, features=feats)

    # ---------------- compute_partition_indices
    part = compute_partition_indices(ops, grouping_type=gtype, method=method)
    if not isinstance(part, tuple) or not all(isinstance(p, tuple) for p in part):
        raise Viol("indices-type", f"{part!r}", sig=sig, features=feats)
    flat = [int(i) for p in part for i in p]
    if sorted(flat) != list(range(m)):
        raise Viol("indices-partition", f"{part} is not a partition of range({m})", sig=sig, features=feats)
    if any(len(p) == 0 for p in part):
        raise Viol("empty-group", f"indices {part}", sig=sig, features=feats)
    for p in part:
        for a in range(len(p)):
            for b in range(a + 1, len(p)):
                if not _relation(gtype, words[p[a]], words[p[b]]):
                    raise Viol("indices-relation", f"indices {p[a]},{p[b]}: {words[p[a]]} and {words[p[b]]} are not {gtype}",
                               sig=sig, features=feats)

    # ---------------- adjacency matrix, is_qwc, are_pauli_words_qwc
    wired = [(op, w) for op, w in zip(ops, words) if len(op.wires) > 0]
    if wired:
        strat = PauliGroupingStrategy([op for op, _ in wired], grouping_type=gtype, graph_colourer=method)
        adj = np.asarray(strat.adj_matrix)
        B = np.asarray(strat.binary_observables)
        for i in range(len(wired)):
            for j in range(len(wired)):
                if i != j and bool(adj[i, j]) != (not _relation(gtype, wired[i][1], wired[j][1])):
                    raise Viol("adj-matrix", f"adj[{i},{j}]={adj[i, j]} for {wired[i][1]} / {wired[j][1]} ({gtype})", sig=sig, features=feats)
                if i < j and bool(is_qwc(B[i], B[j])) != P.qwc(wired[i][1], wired[j][1]):
                    raise Viol("is_qwc", f"{wired[i][1]} / {wired[j][1]}")
    all_qwc = all(P.qwc(words[i], words[j]) for i in range(m) for j in range(i + 1, m))
    if bool(are_pauli_words_qwc(ops)) != all_qwc:
        raise Viol("are_pauli_words_qwc", f"{ops}: {are_pauli_words_qwc(ops)} vs {all_qwc}")

    # ---------------- diagonalisation of QWC groups
    order = list(labels)
    dim = 2 ** len(order)
    qgroups = groups if gtype == "qwc" else group_observables(ops, grouping_type="qwc", method=method)
    ndiag = 0
    for g in qgroups:
        members = []
        for j, op in enumerate(g):
            w, _ = _word_of(op)
            c = spec["scale"] if (spec["scale"] is not None and j % 2 == 0) else None
            members.append((qp.s_prod(c, op) if c is not None else op, w, 1.0 if c is None else c))
        try:
            gates, diag = diagonalize_qwc_pauli_words([mm[0] for mm in members])
        except ValueError as e:
            raise Viol("diagonalize-raises", f"QWC group {g} rejected: {e}", sig="diag", features=feats) from e
        if len(diag) != len(members):
            raise Viol("diagonalize-length", f"{len(diag)} outputs for {len(members)} members")
        if any(gt.name not in ("RX", "RY") for gt in gates) or len({gt.wires[0] for gt in gates}) != len(gates):
            raise Viol("diagonalize-gates", f"{gates}")
        D = sim.unitary(gates, order) if gates else np.eye(dim)
        for (op, w, c), dop in zip(members, diag):
            M = c * P.word_matrix(w, order)
            want = D @ M @ D.conj().T
            if np.abs(want - np.diag(np.diag(want))).max() > TOL:
                raise Viol("diagonalize-not-diagonal", f"gates {gates} do not diagonalise {op}", sig="diag", features=feats)
            gotm = qp.matrix(dop, wire_order=order)
            if not close(gotm, want, TOL):
                scaled_id = (not P.canon_word(w)) and c != 1.0
                raise Viol("diagonalize-value", f"{op} -> {dop}: D P D^dag differs by {maxdiff(gotm, want)}",
                           sig="diag-scaled-identity" if scaled_id else "diag", features={"scaled_identity": scaled_id})
            rep = dop.pauli_rep
            if rep is None or any(ch != "Z" for pw in rep for ch in pw.values()):
                raise Viol("diagonalize-not-Z", f"{dop}")
            ndiag += 1
    # a list that is not QWC must be rejected with the documented ValueError
    if not all_qwc:
        try:
            diagonalize_qwc_pauli_words(ops)
        except ValueError:
            pass
        else:
            raise Viol("diagonalize-accepts-non-qwc", f"{ops}")

    labs = [gtype, method, f"groups={min(len(groups), 6)}", f"m={min(m, 12) // 3 * 3}+"]
    if len(set(keys)) < len(keys):
        labs.append("duplicates")
    if any(not k for k in keys):
        labs.append("identity")
    if nowire:
        labs.append("wireless-identity")
    if spec["coeffs"]:
        labs.append("coeffs=" + spec["coeffs"])
    if spec["scale"] is not None:
        labs.append("scaled-members")
    big = max(len(g) for g in groups)
    return Result(nontrivial=m >= 3 and len(groups) >= 2 and big >= 2, labels=labs)


def selftest():
    P.selftest()
    assert _relation("anticommuting", {0: "X"}, {0: "Y"}) and not _relation("anticommuting", {0: "X"}, {})
    assert _relation("qwc", {0: "X"}, {1: "Y"}) and not _relation("qwc", {0: "X", 1: "X"}, {0: "Y", 1: "Y"})
    assert _relation("commuting", {0: "X", 1: "X"}, {0: "Y", 1: "Y"})
