"""C69 — spin-model Hamiltonians and lattices match textbook sums over independently enumerated neighbour pairs."""
import itertools
import math

import numpy as np
from hypothesis import strategies as st

from pv.engine import Reject, Result, Viol
from pv.ref import lattices as L

ID = "C69"
TECHNIQUE = ("hypothesis-generated lattice shapes / sizes / boundary conditions / couplings vs a geometric neighbour "
             "enumeration (infinite-lattice distance shells + periodic images) and an own Pauli/Jordan-Wigner algebra")
RULE = (
    "Specs: every generate_lattice shape x n_cells (1-5 per axis, site cap) x open / periodic / per-axis boundary "
    "lists x neighbour_order 1-3; custom Lattice objects (oblique / rectangular vectors, 1-3 basis atoms); "
    "transverse_ising, heisenberg (scalar / per-order / full-matrix couplings), fermi_hubbard, emery, haldane "
    "(scalar / per-order / matrix / per-site parameters, all three fermion mappings), kitaev, and spin_hamiltonian on "
    "lattices with translated custom edges and on-site terms. Oracle: sites r = cell.vectors + basis, index row-major; "
    "edge set of order k = pairs with a periodic image in the k-th distance shell of the infinite lattice (set "
    "semantics as in the documented 2-cell periodic example); lattice.edges must equal it exactly, named shapes must "
    "show the textbook coordination numbers; Hamiltonian pauli_rep must equal the textbook sum over those pairs "
    "(1e-10 per coefficient) built with an independent Pauli algebra and Jordan-Wigner map; parity / Bravyi-Kitaev "
    "outputs must be isospectral to the JW reference (<= 8 qubits); all outputs Hermitian. Kitaev bonds: pattern of "
    "the documented example, union = honeycomb nearest-neighbour bonds, one direction per bond type. "
    "Non-trivial: some periodic axis with >= 3 cells (wrap-around edges distinct) or neighbour_order >= 2."
)
ASSUMPTIONS = [
    "Cases where a site sees its own periodic image inside the requested shells, or where the k-th distance realised "
    "in the finite lattice is not the k-th shell of the infinite lattice, are rejected: the numbering / self-edge "
    "convention is not documented.",
    "Full-matrix couplings are symmetric; cases where one pair belongs to two shells are rejected for matrix "
    "couplings (double counting undocumented).",
    "Haldane next-nearest-neighbour phase: exp(+i phi) multiplies c_i^dagger c_j with i < j, the orientation in which "
    "lattice.edges lists every pair (the docstring formula is literal in (i, j)).",
    "Spin orbital of site i and spin s is qubit 2 i + s (documented example); only jordan_wigner is compared "
    "term by term, the other mappings by spectrum.",
    "Custom lattices with near-degenerate shells (gap < 1e-3) are rejected.",
]
BUDGET = {"quick": {"examples": 420}, "thorough": {"examples": 12000, "shards": 16}}
SHRINK_LISTS = ("custom_edges", "custom_nodes")
TOL = 1e-10

DIM = {"chain": 1, "square": 2, "rectangle": 2, "triangle": 2, "honeycomb": 2, "kagome": 2, "lieb": 2,
       "cubic": 3, "bcc": 3, "fcc": 3, "diamond": 3}
NAMES = list(DIM)
_val = st.integers(-16, 16).map(lambda k: k / 8.0)
_nz = _val.filter(lambda v: v != 0)


# ------------------------------------------------------------------------------------------------ generators
@st.composite
def _geometry(draw, cap, max_order=3, shapes=NAMES):
    shape = draw(st.sampled_from(shapes))
    d = DIM[shape]
    n_sl = len(L.SHAPES[shape][1])
    for _ in range(20):
        n_cells = [draw(st.sampled_from([1, 2, 2, 3, 3, 4, 5])) for _ in range(d)]
        if int(np.prod(n_cells)) * n_sl <= cap:
            break
    else:
        n_cells = [2] * d if 2 ** d * n_sl <= cap else [1] * d
    order = draw(st.sampled_from([1, 1, 1, 2, 2, 3][: 2 * max_order]))
    bc = draw(st.one_of(st.booleans(), st.just(True), st.lists(st.booleans(), min_size=d, max_size=d)))
    if draw(st.integers(0, 7)) and any(n <= order for n in n_cells):
        # mostly keep axes too short for their own images open (self-image cases are rejected by the oracle anyway)
        bl = [bc] * d if isinstance(bc, bool) else bc
        bc = [b and n > order for b, n in zip(bl, n_cells)]
    return {"shape": shape, "n_cells": n_cells, "bc": bc, "order": order}


def _sym(draw, n, elems):
    m = [[0.0] * n for _ in range(n)]
    for i in range(n):
        for j in range(i, n):
            m[i][j] = m[j][i] = draw(elems)
    return m


@st.composite
def _edge_param(draw, geo, n_sites, allow_scalar=True):
    """scalar | per-order list | symmetric matrix"""
    kinds = ["list", "list", "matrix"] + (["scalar"] if allow_scalar else [])
    kind = draw(st.sampled_from(kinds))
    if kind == "scalar" and (geo["order"] == 1 or draw(st.integers(0, 3)) == 0):
        return draw(_nz)
    if kind == "scalar":
        kind = "list"
    if kind == "list":
        return [draw(_nz) for _ in range(geo["order"])]
    return _sym(draw, n_sites, _val)


@st.composite
def _case(draw, tier):
    big = tier != "quick"
    kind = draw(st.sampled_from(["lattice", "lattice", "custom_lattice", "ising", "heisenberg", "hubbard", "emery",
                                 "haldane", "kitaev", "spin_hamiltonian"]))
    if kind == "lattice":
        return dict(draw(_geometry(90 if big else 64)), kind=kind)
    if kind == "custom_lattice":
        return draw(_custom(big, edges=False))
    if kind == "spin_hamiltonian":
        return draw(_custom(big, edges=True))
    if kind == "kitaev":
        n_cells = [draw(st.sampled_from([1, 2, 2, 3, 3, 4])), draw(st.sampled_from([1, 2, 2, 3, 3, 4]))]
        return {"kind": kind, "n_cells": n_cells, "coupling": draw(st.one_of(st.none(), st.lists(_nz, min_size=3, max_size=3))),
                "bc": draw(st.one_of(st.booleans(), st.lists(st.booleans(), min_size=2, max_size=2)))}
    fermi = kind in ("hubbard", "emery", "haldane")
    geo = draw(_geometry(8 if fermi else (36 if big else 27), max_order=2 if fermi else 3,
                         shapes=[s for s in NAMES if not (fermi and s == "fcc")]))
    n_sites = int(np.prod(geo["n_cells"])) * len(L.SHAPES[geo["shape"]][1])
    spec = dict(geo, kind=kind)
    if kind == "ising":
        spec["coupling"] = draw(_edge_param(geo, n_sites))
        spec["h"] = draw(_val)
    elif kind == "heisenberg":
        form = draw(st.sampled_from(["none", "vec", "list", "matrix"] if geo["order"] == 1 else ["list", "list", "matrix"]))
        if form == "none":
            spec["coupling"] = None
        elif form == "vec":
            spec["coupling"] = [draw(_nz) for _ in range(3)]
        elif form == "list":
            spec["coupling"] = [[draw(_nz) for _ in range(3)] for _ in range(geo["order"])]
        else:
            spec["coupling"] = [_sym(draw, n_sites, _val) for _ in range(3)]
    else:
        spec["mapping"] = draw(st.sampled_from(["jordan_wigner", "jordan_wigner", "parity", "bravyi_kitaev"]))
        if kind == "haldane":
            spec.pop("order")
            for name in ("hopping", "hopping_next", "phi"):
                spec[name] = draw(st.one_of(_nz, _nz, st.just(None).map(lambda _: None)))
                if spec[name] is None:
                    spec[name] = _sym(draw, n_sites, _val)
        else:
            spec["hopping"] = draw(_edge_param(geo, n_sites))
            spec["coulomb"] = draw(st.one_of(_val, st.lists(_val, min_size=n_sites, max_size=n_sites)))
            if kind == "emery":
                spec["intersite"] = draw(_edge_param(geo, n_sites))
    return spec


_VECTORS = {
    1: [[[1.0]], [[1.5]]],
    2: [[[1.0, 0.0], [0.0, 1.0]], [[2.0, 0.0], [0.0, 1.0]], [[1.0, 0.0], [0.5, 0.75 ** 0.5]], [[1.0, 0.0], [0.3, 1.1]],
        [[1.0, 0.5], [-0.5, 1.25]]],
    3: [[[1.0, 0.0, 0.0], [0.0, 1.0, 0.0], [0.0, 0.0, 2.0]], [[1.0, 0.0, 0.0], [0.5, 1.0, 0.0], [0.0, 0.25, 1.5]]],
}


@st.composite
def _custom(draw, big, edges):
    d = draw(st.sampled_from([1, 2, 2, 2, 3])) if not edges else draw(st.sampled_from([1, 2, 2]))
    vectors = draw(st.sampled_from(_VECTORS[d]))
    n_sl = draw(st.integers(1, 3 if not edges else 2))
    fr = st.tuples(*[st.integers(0, 7) for _ in range(d)])
    fracs = draw(st.lists(fr, min_size=n_sl, max_size=n_sl, unique=True))
    positions = (np.asarray(fracs, dtype=float) / 8.0 @ np.asarray(vectors)).tolist()
    cap = 40 if big else 30
    for _ in range(20):
        n_cells = [draw(st.integers(1, 4)) for _ in range(d)]
        if int(np.prod(n_cells)) * n_sl <= cap:
            break
    else:
        n_cells = [1] * d
    bc = draw(st.one_of(st.booleans(), st.lists(st.booleans(), min_size=d, max_size=d)))
    spec = {"kind": "custom_lattice", "vectors": vectors, "positions": positions, "n_cells": n_cells, "bc": bc,
            "order": draw(st.sampled_from([1, 1, 2, 3]))}
    if edges:
        n_sites = int(np.prod(n_cells)) * n_sl
        if n_sites < 2:
            n_cells[0] += 1
            n_sites = int(np.prod(n_cells)) * n_sl
        letters = st.sampled_from(["X", "Y", "Z", "X", "Y", "Z", "I"])
        pair = st.tuples(st.integers(0, n_sites - 1), st.integers(0, n_sites - 1)).filter(lambda p: p[0] != p[1])
        ce = draw(st.lists(st.tuples(pair, letters, letters, _nz), min_size=1, max_size=4))
        spec.update(kind="spin_hamiltonian", order=1,
                    custom_edges=[[list(p), a + b, c] for p, a, b, c in ce],
                    custom_nodes=draw(st.one_of(st.none(), st.lists(
                        st.tuples(st.integers(0, n_sites - 1), st.sampled_from("XYZ"), _nz).map(list), max_size=3))))
    return spec


def strategy(tier):
    return _case(tier)


def enumerate_cases(tier):
    """Every named shape with 2 / 3 cells per axis, fully open and fully periodic, first shell; documented examples."""
    for shape, d in DIM.items():
        for n in (2, 3):
            for bc in (False, True):
                if d == 3 and n == 3 and tier == "quick" and shape in ("fcc",):
                    continue
                yield {"kind": "lattice", "shape": shape, "n_cells": [n] * d, "bc": bc, "order": 1}
        if d < 3:
            yield {"kind": "lattice", "shape": shape, "n_cells": [5] * d, "bc": True, "order": 3}
            yield {"kind": "heisenberg", "shape": shape, "n_cells": [3] * d, "bc": True, "order": 1, "coupling": [0.5, -1.0, 2.0]}
    yield {"kind": "ising", "shape": "square", "n_cells": [2, 2], "bc": False, "order": 1, "coupling": 0.5, "h": 0.1}
    yield {"kind": "hubbard", "shape": "chain", "n_cells": [2], "bc": False, "order": 1, "hopping": 0.5, "coulomb": 1.0,
           "mapping": "jordan_wigner"}
    yield {"kind": "emery", "shape": "chain", "n_cells": [2], "bc": False, "order": 1, "hopping": 0.5, "coulomb": 1.0,
           "intersite": 0.2, "mapping": "jordan_wigner"}
    yield {"kind": "haldane", "shape": "chain", "n_cells": [2], "bc": False, "hopping": 0.5, "hopping_next": 1.0,
           "phi": 0.1, "mapping": "jordan_wigner"}
    yield {"kind": "kitaev", "n_cells": [2, 2], "coupling": [0.5, 0.6, 0.7], "bc": False}
    for a in range(1, 4):
        for b in range(1, 4):
            for bc in (False, True, [True, False], [False, True]):
                yield {"kind": "kitaev", "n_cells": [a, b], "coupling": [0.5, 0.6, 0.7], "bc": bc}


# ------------------------------------------------------------------------------------------------ helpers
def _bc_list(bc, d):
    return [bool(bc)] * d if isinstance(bc, bool) else [bool(b) for b in bc]


def _geo_ref(vectors, positions, spec, order, need_single=False):
    d = len(spec["n_cells"])
    pbc = _bc_list(spec["bc"], d)
    ref = L.neighbour_edges(vectors, positions, spec["n_cells"], pbc, order)
    if ref["self_image"]:
        raise Reject("a site sees its own periodic image within the requested shells")
    if ref["ambiguous"]:
        raise Reject("finite lattice does not realise the first shells of the infinite lattice")
    if need_single and ref["multi"]:
        raise Reject("pair belongs to two shells with a matrix coupling")
    return ref, pbc


def _labels(spec, pbc, order):
    lab = [spec["kind"], spec.get("shape", "custom"), f"order-{order}",
           "bc-" + ("open" if not any(pbc) else "periodic" if all(pbc) else "mixed")]
    wrap = any(p and n >= 3 for p, n in zip(pbc, spec["n_cells"]))
    if wrap:
        lab.append("wrap>=3cells")
    return lab, (wrap or order >= 2)


def _sentence(H, what):
    ps = H.pauli_rep
    if ps is None:
        raise Viol("no-pauli-rep", what, sig=what)
    s = L.from_pennylane(ps)
    bad = [k for k, v in s.items() if abs(v.imag) > TOL]
    if bad:
        raise Viol("not-hermitian", f"{what}: complex coefficient on {bad[0]}: {s[bad[0]]}", sig=what)
    return s


def _compare(got, ref, what, feats):
    diff = L.s_diff(got, L.s_clean(ref), TOL)
    if diff:
        k, a, b = diff[0]
        raise Viol("hamiltonian", f"{what}: {len(diff)} differing terms, e.g. {k}: got {a!r} expected {b!r}",
                   sig=what, features=feats)


def _check_edges(lat, ref, what, feats):
    if lat.n_sites != ref["n_sites"]:
        raise Viol("n-sites", f"{what}: n_sites {lat.n_sites} != {ref['n_sites']}", sig=what, features=feats)
    got = [tuple(int(x) for x in e) for e in lat.edges]
    if len(set(got)) != len(got):
        raise Viol("duplicate-edges", f"{what}: repeated entries in lattice.edges", sig=what, features=feats)
    if set(got) != ref["edges"]:
        miss = sorted(ref["edges"] - set(got))[:4]
        extra = sorted(set(got) - ref["edges"])[:4]
        raise Viol("edges", f"{what}: missing {miss} unexpected {extra} (|got|={len(got)} |ref|={len(ref['edges'])})",
                   sig=what, features=feats)
    if [tuple(e) for e in lat.edges_indices] != [e[:2] for e in got]:
        raise Viol("edges-indices", f"{what}: edges_indices inconsistent with edges", sig=what, features=feats)


def _edge_value(p, i, j, k):
    """value of a scalar / per-order list / matrix parameter on edge (i, j) of order k"""
    if isinstance(p, (int, float)):
        return p
    if p and isinstance(p[0], list):
        return p[i][j]
    return p[k]


def _is_matrix(p):
    return isinstance(p, list) and p and isinstance(p[0], list)


# ------------------------------------------------------------------------------------------------ check
def check(spec):
    from pennylane import spin

    kind = spec["kind"]
    if kind == "kitaev":
        return _check_kitaev(spec, spin)
    if kind == "spin_hamiltonian":
        return _check_custom_edges(spec, spin)
    if kind in ("lattice", "custom_lattice"):
        return _check_lattice(spec, spin)
    return _check_model(spec, spin)


def _check_lattice(spec, spin):
    order = spec["order"]
    if spec["kind"] == "lattice":
        vectors, positions = L.SHAPES[spec["shape"]]
        what = f"generate_lattice[{spec['shape']}]"
    else:
        vectors, positions = spec["vectors"], spec["positions"]
        what = "Lattice"
        cutoff = order * max(np.linalg.norm(np.asarray(vectors), axis=1))
        sh = L.shells(vectors, positions, cutoff + 1e-3)
        if any(b - a < 1e-3 for a, b in zip(sh, sh[1:])) or sh[0] < 1e-3:
            raise Reject("near-degenerate distance shells")
    ref, pbc = _geo_ref(vectors, positions, spec, order)
    feats = {"kind": spec["kind"], "shape": spec.get("shape"), "order": order}
    if spec["kind"] == "lattice":
        lat = spin.generate_lattice(spec["shape"], list(spec["n_cells"]), spec["bc"], order)
    else:
        lat = spin.Lattice(list(spec["n_cells"]), vectors, positions, boundary_condition=spec["bc"],
                           neighbour_order=order)
    _check_edges(lat, ref, what, feats)
    lab, nontrivial = _labels(spec, pbc, order)
    # textbook coordination numbers: fully periodic, every axis long enough that images are distinct
    if spec["kind"] == "lattice" and all(pbc) and all(n >= 2 * order + 1 for n in spec["n_cells"]):
        deg = [[0] * lat.n_sites for _ in range(order)]
        for i, j, k in lat.edges:
            deg[k][i] += 1
            deg[k][j] += 1
        shape = spec["shape"]
        n_sl = len(positions)
        for k in range(order):
            if shape in L.COORDINATION:
                want = [L.COORDINATION[shape][k]] * lat.n_sites
            elif k < len(L.COORDINATION_BY_SUBLATTICE[shape]):
                want = [L.COORDINATION_BY_SUBLATTICE[shape][k][s % n_sl] for s in range(lat.n_sites)]
            else:
                continue
            if deg[k] != want:
                raise Viol("coordination", f"{what}: shell {k} degrees {sorted(set(deg[k]))} != textbook "
                                           f"{sorted(set(want))}", sig=what, features=feats)
        lab.append("coordination-checked")
    return Result(nontrivial, lab)


def _check_model(spec, spin):
    kind, shape = spec["kind"], spec["shape"]
    order = 2 if kind == "haldane" else spec["order"]
    vectors, positions = L.SHAPES[shape]
    params = [spec.get(k) for k in ("coupling", "hopping", "intersite", "hopping_next", "phi")]
    if kind == "heisenberg":
        c = spec["coupling"]
        matrix = c is not None and isinstance(c[0], list) and isinstance(c[0][0], list)
    else:
        matrix = any(_is_matrix(p) for p in params)
    ref, pbc = _geo_ref(vectors, positions, spec, order, need_single=matrix)
    n = ref["n_sites"]
    edges = sorted(ref["edges"])
    feats = {"kind": kind, "shape": shape, "order": order, "mapping": spec.get("mapping")}
    what = kind + (f"[{spec['mapping']}]" if spec.get("mapping") else "")
    args = (shape, list(spec["n_cells"]))
    kw = {"boundary_condition": spec["bc"]}
    if kind != "haldane":
        kw["neighbour_order"] = order
    scalar_hi = kind != "haldane" and order > 1 and any(
        isinstance(spec.get(k), (int, float)) for k in ("coupling", "hopping", "intersite"))
    lab, nontrivial = _labels(spec, pbc, order)

    def call(f, **extra):
        try:
            return f(*args, **kw, **extra)
        except ValueError as e:
            if scalar_hi and "should be a number" in str(e):
                raise Viol("scalar-parameter-rejected",
                           f"{kind}: a plain number is documented as valid but neighbour_order={order} raises: {e}",
                           sig=kind, features=dict(feats, scalar_with_order=True))
            raise

    expected = {}
    if kind == "ising":
        H = call(spin.transverse_ising, coupling=spec["coupling"], h=spec["h"])
        for i, j, k in edges:
            key = L.word((i, "Z"), (j, "Z"))
            expected[key] = expected.get(key, 0) - _edge_value(spec["coupling"], i, j, k)
        for v in range(n):
            expected[L.word((v, "X"))] = -spec["h"]
        lab.append("coupling-" + ("matrix" if matrix else "scalar" if isinstance(spec["coupling"], float) else "list"))
    elif kind == "heisenberg":
        c = spec["coupling"]
        H = call(spin.heisenberg, coupling=c)
        for i, j, k in edges:
            for a, P in enumerate("XYZ"):
                if c is None:
                    v = 1.0
                elif matrix:
                    v = c[a][i][j]
                elif isinstance(c[0], list):
                    v = c[k][a]
                else:
                    v = c[a]
                key = L.word((i, P), (j, P))
                expected[key] = expected.get(key, 0) + v
        lab.append("coupling-" + ("matrix" if matrix else "default" if c is None else "list"))
    else:
        mapping = spec["mapping"]
        f = {"hubbard": spin.fermi_hubbard, "emery": spin.emery, "haldane": spin.haldane}[kind]
        if kind == "haldane":
            H = call(f, hopping=spec["hopping"], hopping_next=spec["hopping_next"], phi=spec["phi"], mapping=mapping)
        elif kind == "hubbard":
            H = call(f, hopping=spec["hopping"], coulomb=spec["coulomb"], mapping=mapping)
        else:
            H = call(f, hopping=spec["hopping"], coulomb=spec["coulomb"], intersite_coupling=spec["intersite"],
                     mapping=mapping)
        for i, j, k in edges:
            for s in (0, 1):
                p, q = 2 * i + s, 2 * j + s
                if kind == "haldane":
                    if k == 0:
                        amp = -_edge_value(spec["hopping"], i, j, 0)
                    else:
                        amp = -_edge_value(spec["hopping_next"], i, j, 0) * np.exp(1j * _edge_value(spec["phi"], i, j, 0))
                else:
                    amp = -_edge_value(spec["hopping"], i, j, k)
                expected = L.s_add(expected, L.jw_hop(p, q, amp))
            if kind == "emery":
                ni = L.s_add(L.jw_number(2 * i), L.jw_number(2 * i + 1))
                nj = L.s_add(L.jw_number(2 * j), L.jw_number(2 * j + 1))
                expected = L.s_add(expected, L.s_mul(ni, nj), _edge_value(spec["intersite"], i, j, k))
        if kind != "haldane":
            U = spec["coulomb"]
            for v in range(n):
                u = U if isinstance(U, (int, float)) else U[v]
                expected = L.s_add(expected, L.s_mul(L.jw_number(2 * v), L.jw_number(2 * v + 1)), u)
        lab.append(mapping)
        if mapping != "jordan_wigner":
            got = _sentence(H, what)
            nq = 2 * n
            wires = {w for k in got for w, _ in k}
            if not wires <= set(range(nq)):
                raise Viol("wires", f"{what}: acts on {sorted(wires)} outside range({nq})", sig=what, features=feats)
            if nq > 8:
                raise Reject("non-JW mapping compared by spectrum only up to 8 qubits")
            ev_got = np.linalg.eigvalsh(L.dense(got, nq))
            ev_ref = np.linalg.eigvalsh(L.dense(L.s_clean(expected), nq))
            if np.abs(ev_got - ev_ref).max() > 1e-8:
                raise Viol("spectrum", f"{what}: spectrum differs from the Jordan-Wigner reference by "
                                       f"{np.abs(ev_got - ev_ref).max():.3g}", sig=what, features=feats)
            return Result(nontrivial and bool(edges), lab)
    _compare(_sentence(H, what), expected, what, feats)
    return Result(nontrivial and bool(edges), lab)


def _check_kitaev(spec, spin):
    n_cells, coupling = list(spec["n_cells"]), spec["coupling"]
    pbc = _bc_list(spec["bc"], 2)
    if any(p and n < 2 for p, n in zip(pbc, n_cells)):
        raise Reject("periodic axis with a single cell (bond onto itself)")
    K = coupling if coupling is not None else [1.0, 1.0, 1.0]
    feats = {"kind": "kitaev", "n_cells": n_cells}
    # bond pattern of the documented example: XX inside a cell (A-B), YY from B(c) to A(c + (0,1)), ZZ to A(c + (1,0))
    bonds = []
    for cell in itertools.product(range(n_cells[0]), range(n_cells[1])):
        b = L.site_index(cell, 1, n_cells, 2)
        bonds.append(("X", L.site_index(cell, 0, n_cells, 2), b))
        for P, t in (("Y", (0, 1)), ("Z", (1, 0))):
            tgt = [cell[0] + t[0], cell[1] + t[1]]
            ok = True
            for ax in range(2):
                if tgt[ax] >= n_cells[ax]:
                    if pbc[ax]:
                        tgt[ax] %= n_cells[ax]
                    else:
                        ok = False
            if ok:
                bonds.append((P, b, L.site_index(tgt, 0, n_cells, 2)))
    # textbook cross-check of the pattern itself: the bonds are exactly the honeycomb nearest-neighbour pairs
    ref = L.neighbour_edges(*L.SHAPES["honeycomb"], n_cells, pbc, 1)
    pairs = [(min(a, b), max(a, b)) for _, a, b in bonds]
    if not ref["self_image"] and {(a, b, 0) for a, b in pairs} != ref["edges"]:
        raise AssertionError("kitaev bond pattern is not the honeycomb nearest-neighbour set")
    try:
        H = spin.kitaev(n_cells, coupling=coupling, boundary_condition=spec["bc"])
    except ValueError as e:
        if "vertices greater than n_sites" in str(e):
            raise Viol("kitaev-small-lattice", f"kitaev({n_cells}) rejects a valid lattice size: {e}", sig="kitaev",
                       features=dict(feats, single_cell_axis=True))
        raise
    expected = {}
    for P, a, b in bonds:
        key = L.word((a, P), (b, P))
        expected[key] = expected.get(key, 0) + K["XYZ".index(P)]
    feats["single_cell_axis"] = 1 in n_cells
    _compare(_sentence(H, "kitaev"), expected, "kitaev", feats)
    lab, nontrivial = _labels(spec, pbc, 1)
    return Result(nontrivial or min(n_cells) >= 2, lab)


def _check_custom_edges(spec, spin):
    n_cells, vectors, positions = list(spec["n_cells"]), spec["vectors"], spec["positions"]
    d, n_sl = len(n_cells), len(positions)
    pbc = _bc_list(spec["bc"], d)
    ce = [[tuple(e[0]), (e[1], e[2])] for e in spec["custom_edges"]]
    cn = None if spec["custom_nodes"] is None else [[v[0], (v[1], v[2])] for v in spec["custom_nodes"]]
    ref_edges = []
    for (a, b), (op, c) in ce:
        for s1, s2 in L.translate_edge(a, b, n_cells, n_sl, pbc):
            if s1 == s2:
                raise Reject("custom edge wraps onto a single site")
            ref_edges.append((s1, s2, op, c))
    seen = [(frozenset((s1, s2)), op) for s1, s2, op, _ in ref_edges if op[0] == op[1]]
    if len(set(seen)) != len(seen):
        raise Reject("translated custom edges coincide (double counting undocumented)")
    feats = {"kind": "spin_hamiltonian"}
    lat = spin.Lattice(n_cells, vectors, positions, boundary_condition=spec["bc"], custom_edges=ce, custom_nodes=cn)
    got = sorted((int(e[0]), int(e[1]), e[2][0], float(e[2][1])) for e in lat.edges)
    if got != sorted(ref_edges):
        raise Viol("custom-edges", f"Lattice.edges {got[:6]} != translated custom edges {sorted(ref_edges)[:6]} "
                                   f"(n_cells {n_cells}, pbc {pbc}, n_sl {n_sl})", sig="Lattice", features=feats)
    H = spin.spin_hamiltonian(lat)
    expected = {}
    for s1, s2, op, c in ref_edges:
        key = L.word((s1, op[0]), (s2, op[1]))
        expected[key] = expected.get(key, 0) + c
    for v, P, c in (spec["custom_nodes"] or []):
        key = L.word((v, P))
        expected[key] = expected.get(key, 0) + c
    _compare(_sentence(H, "spin_hamiltonian"), expected, "spin_hamiltonian", feats)
    lab, nontrivial = _labels(spec, pbc, 1)
    moved = any(L.decode_site(a, n_cells, n_sl)[0] != L.decode_site(b, n_cells, n_sl)[0] for (a, b), _ in ce)
    if moved:
        lab.append("inter-cell-edge")
    return Result(len(ref_edges) > len(ce) and (moved or nontrivial), lab)


def selftest():
    L.selftest()
