"""C60 — classical-shadow estimators are exactly unbiased; device shadow measurements have the documented form."""
import itertools
import math

import numpy as np
from hypothesis import strategies as st

from pv.engine import Reject, Result, Viol

ID = "C60"
TECHNIQUE = ("full enumeration of all 3^n recipes x 2^n outcomes weighted by exact Born probabilities (own numpy state "
             "model) for the post-processing; seeded device runs with an exact-probability chi-square test")
RULE = (
    "Exact part: random 1-3 qubit pure and mixed states (two entangling rotation layers, generic and special "
    "angles, optional mixture). A ClassicalShadow holding every (recipe, outcome) pair once is built; with weights "
    "p(r,b) = 3^-n tr(rho prod_i (I + (-1)^b_i P_r_i)/2): sum p * global_snapshots = rho (also on wire subsets = "
    "partial traces); every local snapshot equals 3(I +- P)/2 - I; sum p * pauli_expval(word) = tr(rho P) for ALL 4^n "
    "Pauli words; sum p * (single-snapshot shadow).expval(H) = tr(rho H) for random Pauli words / sums / "
    "Hamiltonians / lists on custom wire_map labels; uniform weights give the identity coefficient; k > 1 equals "
    "the documented median of means of the per-snapshot values. Device part: qp.classical_shadow / shadow_expval on "
    "default.qubit and default.mixed (noise channels) with fixed seeds: shape (2, T, n), bits in {0,1}, recipes in "
    "{0,1,2}, bitwise reproducible for equal seeds, recipes independent of the circuit, pooled (recipe, outcome) "
    "histogram vs exact probabilities by chi-square (violation only if p < 1e-9 on T shots and again on 4T shots), "
    "shadow_expval within the Hoeffding bound (p < 1e-9) of tr(rho H). Non-trivial: some Pauli word has "
    "|tr(rho P)| strictly between 1e-3 and 1 - 1e-3."
)
ASSUMPTIONS = [
    "recipes 0/1/2 = X/Y/Z and bit 0 / 1 = eigenvalue +1 / -1 (documented in qp.classical_shadow).",
    "wires= arguments of local/global_snapshots are column indices of bits/recipes (default wire_map).",
    "k > 1 is only checked for single Pauli words with k dividing the number of snapshots.",
    "Statistical clauses use fixed seeds from the spec; chi-square cells with expected count < 8 are pooled.",
]
BUDGET = {"quick": {"examples": 90}, "thorough": {"examples": 5000, "shards": 16}}
EXHAUSTIVE = False   # exhaustive over recipe/outcome pairs per state, not over states
SHRINK_LISTS = ("obs", "terms")
TOL = 1e-10

I2 = np.eye(2, dtype=complex)
PAULI = {"I": I2, "X": np.array([[0, 1], [1, 0]], dtype=complex), "Y": np.array([[0, -1j], [1j, 0]]),
         "Z": np.diag([1.0 + 0j, -1.0])}
REC = "XYZ"


# ------------------------------------------------------------------------------------------------ reference model
def kron(*ms):
    out = np.array([[1.0 + 0j]])
    for m in ms:
        out = np.kron(out, m)
    return out


def rot(a, b, c):
    rx = np.array([[math.cos(a / 2), -1j * math.sin(a / 2)], [-1j * math.sin(a / 2), math.cos(a / 2)]])
    ry = np.array([[math.cos(b / 2), -math.sin(b / 2)], [math.sin(b / 2), math.cos(b / 2)]], dtype=complex)
    rz = np.diag([np.exp(-1j * c / 2), np.exp(1j * c / 2)])
    return rz @ ry @ rx


def cnot(n, c, t):
    U = np.zeros((2 ** n, 2 ** n), dtype=complex)
    for k in range(2 ** n):
        bits = [(k >> (n - 1 - j)) & 1 for j in range(n)]
        if bits[c]:
            bits[t] ^= 1
        U[sum(b << (n - 1 - j) for j, b in enumerate(bits)), k] = 1
    return U


def pure_state(n, layers):
    """layers: [angles1 (n x 3), cnots [[c, t], ...], angles2 (n x 3)] applied to |0..0>."""
    psi = np.zeros(2 ** n, dtype=complex)
    psi[0] = 1
    a1, cn, a2 = layers
    psi = kron(*[rot(*a) for a in a1]) @ psi
    for c, t in cn:
        psi = cnot(n, c, t) @ psi
    return kron(*[rot(*a) for a in a2]) @ psi


def density(n, spec):
    psi = pure_state(n, spec["layers"])
    rho = np.outer(psi, psi.conj())
    if spec.get("mix"):
        phi = pure_state(n, spec["mix"]["layers"])
        p = spec["mix"]["p"]
        rho = (1 - p) * rho + p * np.outer(phi, phi.conj())
    for kind, w, p in spec.get("noise", []):
        if kind == "depol":
            acc = (1 - p) * rho
            for L in "XYZ":
                K = kron(*[PAULI[L] if j == w else I2 for j in range(n)])
                acc = acc + (p / 3) * K @ rho @ K.conj().T
            rho = acc
        elif kind == "bitflip":
            K = kron(*[PAULI["X"] if j == w else I2 for j in range(n)])
            rho = (1 - p) * rho + p * K @ rho @ K.conj().T
    return rho


def word_matrix(word):
    return kron(*[PAULI[l] for l in word])


def reduce_to(rho, n, wires):
    """partial trace onto `wires` (in that order)."""
    t = rho.reshape([2] * (2 * n))
    rest = [j for j in range(n) if j not in wires]
    perm = list(wires) + rest + [n + j for j in wires] + [n + j for j in rest]
    t = t.transpose(perm).reshape(2 ** len(wires), 2 ** len(rest), 2 ** len(wires), 2 ** len(rest))
    return np.einsum("arbr->ab", t)


def enumerate_shadow(n):
    recs = list(itertools.product(range(3), repeat=n))
    outs = list(itertools.product(range(2), repeat=n))
    bits = np.array([b for r in recs for b in outs], dtype=np.int8)
    recipes = np.array([r for r in recs for b in outs], dtype=np.int8)
    return bits, recipes


def weights(rho, bits, recipes):
    n = bits.shape[1]
    w = np.empty(len(bits))
    for t in range(len(bits)):
        proj = kron(*[(I2 + (-1) ** int(bits[t, i]) * PAULI[REC[recipes[t, i]]]) / 2 for i in range(n)])
        w[t] = np.trace(rho @ proj).real / 3 ** n
    return w


def median_of_means(vals, k):
    size = len(vals) // k
    return float(np.median([np.mean(vals[i * size:(i + 1) * size]) for i in range(k)]))


# ------------------------------------------------------------------------------------------------ generators
_special = st.sampled_from([0.0, math.pi / 2, math.pi, -math.pi / 2, math.pi / 4])
_angle = st.one_of(st.floats(-3.1, 3.1).map(lambda x: round(x, 3)), st.floats(-3.1, 3.1).map(lambda x: round(x, 3)), _special)


@st.composite
def _layers(draw, n, special=False):
    ang = _special if special else _angle
    a1 = [[draw(ang) for _ in range(3)] for _ in range(n)]
    a2 = [[draw(ang) for _ in range(3)] for _ in range(n)]
    pairs = [[c, t] for c in range(n) for t in range(n) if c != t]
    cn = draw(st.lists(st.sampled_from(pairs), max_size=3)) if pairs else []
    return [a1, cn, a2]


@st.composite
def _obs(draw, n):
    word = st.text(alphabet="IXYZ", min_size=n, max_size=n)
    form = draw(st.sampled_from(["word", "word", "sprod", "sum", "hamiltonian", "lincomb"]))
    nterms = 1 if form in ("word", "sprod") else draw(st.integers(1, 4))
    terms = [[1.0 if form == "word" else draw(st.integers(-20, 20).filter(bool)) / 8.0, draw(word)] for _ in range(nterms)]
    return {"form": form, "terms": terms}


@st.composite
def _exact(draw, tier, n):
    spec = {"mode": "exact", "n": n, "layers": draw(_layers(n, special=draw(st.integers(0, 5)) == 0))}
    if draw(st.booleans()):
        spec["mix"] = {"p": draw(st.sampled_from([0.5, 0.25, 0.1, 0.9])), "layers": draw(_layers(n))}
    spec["obs"] = draw(st.lists(_obs(n), min_size=2, max_size=4 if tier == "quick" else 8))
    spec["wire_map"] = draw(st.one_of(st.none(), st.permutations(["a", "b", 7, 3, "q"]).map(lambda p: list(p)[:n]),
                                      st.permutations(list(range(n)))))
    subs = [list(s) for r in range(1, n + 1) for s in itertools.permutations(range(n), r)]
    spec["subsets"] = draw(st.lists(st.sampled_from(subs), min_size=1, max_size=3))
    # median of means (k > 1) on a drawn multiset of 24 snapshots and a low-weight word (many matching recipes)
    spec["k"] = draw(st.sampled_from([2, 3, 4, 6, 8]))
    spec["rows"] = draw(st.lists(st.integers(0, 6 ** n - 1), min_size=24, max_size=24))
    pos = draw(st.integers(0, n - 1))
    kw = ["I"] * n
    kw[pos] = draw(st.sampled_from("XYZ"))
    if n > 1 and draw(st.booleans()):
        kw[(pos + 1) % n] = draw(st.sampled_from("XYZ"))
    spec["kword"] = "".join(kw)
    return spec


@st.composite
def _device(draw, tier, dev, n_dev, m):
    wires = list(draw(st.permutations(range(n_dev))))[: min(m, n_dev)]
    layers = draw(_layers(n_dev))
    if len(wires) >= 2 and draw(st.integers(0, 4)):
        # make sure the measured wires are entangled with each other (correlated outcomes)
        extra = [[wires[i], wires[i + 1]] for i in range(len(wires) - 1)]
        layers[1] = (extra if draw(st.booleans()) else [e[::-1] for e in extra]) + layers[1][:2]
    spec = {"mode": "device", "dev": dev, "n": n_dev, "layers": layers, "wires": wires,
            "shots": draw(st.sampled_from([600, 1000, 2000])) * (3 if len(wires) == 3 else 1),
            "seed": draw(st.integers(1, 10 ** 6)),
            "dev_seed": draw(st.integers(0, 10 ** 6)), "obs": [draw(_obs(len(wires)))]}
    if dev == "default.mixed":
        spec["noise"] = draw(st.lists(st.tuples(st.sampled_from(["depol", "bitflip"]), st.integers(0, n_dev - 1),
                                                st.sampled_from([0.05, 0.2, 0.5])).map(list), max_size=2))
    return spec


def strategy(tier):
    # explicit strata (Hypothesis spreads poorly over nested sampled_from choices with < 100 examples)
    exact = [_exact(tier, n) for n in (2, 1, 2, 3, 3)]
    device = [_device(tier, dev, n_dev, m) for dev in ("default.qubit", "default.mixed")
              for n_dev, m in ((1, 1), (2, 2), (3, 2), (3, 3), (2, 1))]
    strata = exact + exact + device

    @st.composite
    def pick(draw):
        return draw(strata[draw(st.integers(0, 2 ** 30)) % len(strata)])

    return pick()


def enumerate_cases(tier):
    z = [[0.0, 0.0, 0.0]]
    h = [[0.0, math.pi / 2, 0.0]]
    # |0>, |+>, Bell, GHZ: documented examples and the trivial eigenstate corner
    yield {"mode": "exact", "n": 1, "layers": [z, [], z], "obs": [{"form": "word", "terms": [[1.0, "Z"]]}],
           "wire_map": None, "subsets": [[0]], "k": 2}
    yield {"mode": "exact", "n": 1, "layers": [h, [], z], "obs": [{"form": "word", "terms": [[1.0, "X"]]}],
           "wire_map": None, "subsets": [[0]], "k": 3}
    yield {"mode": "exact", "n": 2, "layers": [h + z, [[0, 1]], z + z],
           "obs": [{"form": "hamiltonian", "terms": [[1.0, "ZZ"], [1.0, "XX"]]}, {"form": "word", "terms": [[1.0, "XX"]]}],
           "wire_map": None, "subsets": [[0], [1, 0]], "k": 6}
    yield {"mode": "exact", "n": 3, "layers": [h + z + z, [[0, 1], [0, 2]], z + z + z],
           "obs": [{"form": "word", "terms": [[1.0, "XXX"]]}, {"form": "sum", "terms": [[0.5, "ZZI"], [-1.5, "IZZ"]]}],
           "wire_map": ["a", "b", "c"], "subsets": [[0, 2]], "k": 2}
    hy = [[0.0, math.pi / 2, 0.0]]
    for dev in ("default.qubit", "default.mixed"):
        # Bell and GHZ states: perfectly correlated outcomes in every matching basis pair
        yield {"mode": "device", "dev": dev, "n": 2, "layers": [hy + z, [[0, 1]], z + z], "wires": [0, 1], "shots": 1000,
               "seed": 99, "dev_seed": 42, "obs": [{"form": "hamiltonian", "terms": [[1.0, "ZZ"], [1.0, "XX"]]}]}
        yield {"mode": "device", "dev": dev, "n": 3, "layers": [hy + z + z, [[0, 1], [0, 2]], z + z + z], "wires": [2, 0],
               "shots": 1000, "seed": 7, "dev_seed": 1, "obs": [{"form": "word", "terms": [[1.0, "YY"]]}]}
        yield {"mode": "device", "dev": dev, "n": 3, "layers": [hy + z + z, [[0, 1], [0, 2]], [[0.3, 0.2, 0.1]] * 3],
               "wires": [1, 2, 0], "shots": 3000, "seed": 8, "dev_seed": 2, "obs": [{"form": "word", "terms": [[1.0, "XXX"]]}]}


# ------------------------------------------------------------------------------------------------ builders
def build_word(word, labels):
    import pennylane as qp

    ops = [{"X": qp.X, "Y": qp.Y, "Z": qp.Z}[l](labels[i]) for i, l in enumerate(word) if l != "I"]
    if not ops:
        return qp.Identity(labels[0])
    return ops[0] if len(ops) == 1 else qp.prod(*ops)


def build_obs(o, labels):
    import pennylane as qp

    form, terms = o["form"], o["terms"]
    words = [build_word(w, labels) for _, w in terms]
    coeffs = [c for c, _ in terms]
    if form == "word":
        return words[0]
    if form == "sprod":
        return qp.s_prod(coeffs[0], words[0])
    if form == "sum":
        return qp.sum(*[qp.s_prod(c, w) for c, w in zip(coeffs, words)]) if len(words) > 1 else qp.s_prod(coeffs[0], words[0])
    if form == "hamiltonian":
        return qp.Hamiltonian(coeffs, words)
    return qp.ops.LinearCombination(coeffs, words)


def obs_matrix(o):
    return sum(c * word_matrix(w) for c, w in o["terms"])


# ------------------------------------------------------------------------------------------------ checks
def check(spec):
    return _check_exact(spec) if spec["mode"] == "exact" else _check_device(spec)


def _check_exact(spec):
    import pennylane as qp
    from pennylane.shadows.classical_shadow import pauli_expval

    n = spec["n"]
    rho = density(n, spec)
    bits, recipes = enumerate_shadow(n)
    T = len(bits)
    w = weights(rho, bits, recipes)
    assert abs(w.sum() - 1) < 1e-12 and w.min() > -1e-15
    labels = spec["wire_map"] if spec["wire_map"] is not None else list(range(n))
    shadow = qp.ClassicalShadow(bits, recipes, wire_map=None if spec["wire_map"] is None else list(labels))
    plain = qp.ClassicalShadow(bits, recipes)
    feats = {"mode": "exact", "n": n}

    # local snapshots: documented formula 3 U^dagger |b><b| U - 1 = 3 (I + (-1)^b P)/2 - I
    loc = np.asarray(plain.local_snapshots())
    if loc.shape != (T, n, 2, 2):
        raise Viol("local-snapshots-shape", f"{loc.shape} != {(T, n, 2, 2)}", features=feats)
    for t in range(T):
        for i in range(n):
            ref = 3 * (I2 + (-1) ** int(bits[t, i]) * PAULI[REC[recipes[t, i]]]) / 2 - I2
            if np.abs(loc[t, i] - ref).max() > TOL:
                raise Viol("local-snapshot", f"recipe {REC[recipes[t, i]]} bit {bits[t, i]}: {loc[t, i].tolist()} != "
                                             f"{ref.tolist()}", features=feats)
    # global snapshots average to rho
    glob = np.asarray(plain.global_snapshots())
    if glob.shape != (T, 2 ** n, 2 ** n):
        raise Viol("global-snapshots-shape", f"{glob.shape}", features=feats)
    avg = np.tensordot(w, glob, axes=1)
    if np.abs(avg - rho).max() > TOL:
        raise Viol("state-unbiased", f"n={n}: |sum p*snapshot - rho|_max = {np.abs(avg - rho).max():.3g}", features=feats)
    for sub in spec["subsets"]:
        g = np.asarray(plain.global_snapshots(wires=list(sub)))
        ref = reduce_to(rho, n, list(sub))
        if g.shape != (T, 2 ** len(sub), 2 ** len(sub)) or np.abs(np.tensordot(w, g, axes=1) - ref).max() > TOL:
            raise Viol("reduced-state-unbiased", f"wires {sub}: averaged snapshot differs from the partial trace",
                       features=dict(feats, subset=list(sub)))
    # every Pauli word through pauli_expval (per-snapshot values)
    words = list(itertools.product("IXYZ", repeat=n))
    enc = np.array([[{"I": -1, "X": 0, "Y": 1, "Z": 2}[l] for l in wd] for wd in words])
    vals = np.asarray(pauli_expval(bits, recipes, enc))
    if vals.shape != (T, len(words)):
        raise Viol("pauli-expval-shape", f"{vals.shape}", features=feats)
    est = w @ vals
    exact = np.array([np.trace(rho @ word_matrix(wd)).real for wd in words])
    bad = np.abs(est - exact)
    if bad.max() > TOL:
        k = int(np.argmax(bad))
        raise Viol("pauli-word-unbiased", f"word {''.join(words[k])}: sum p*estimate = {est[k]!r}, tr(rho P) = {exact[k]!r}",
                   features=feats)
    nontrivial = bool(np.any((np.abs(exact) > 1e-3) & (np.abs(exact) < 1 - 1e-3)))
    lab = [f"exact-n{n}", "mixed" if spec.get("mix") else "pure", "wire_map-" + (
        "default" if spec["wire_map"] is None else "labels" if any(isinstance(x, str) for x in labels) else "permuted")]

    # expval on single-snapshot shadows, weighted by the exact probabilities
    singles = [qp.ClassicalShadow(bits[t:t + 1], recipes[t:t + 1], wire_map=list(labels)) for t in range(T)]
    ops = [build_obs(o, labels) for o in spec["obs"]]
    for o, op in zip(spec["obs"], ops):
        lab.append("obs-" + o["form"])
        per = np.array([float(np.asarray(s.expval(op, k=1))) for s in singles])
        want = np.trace(rho @ obs_matrix(o)).real
        if abs(w @ per - want) > TOL * max(1, sum(abs(c) for c, _ in o["terms"])):
            raise Viol("expval-unbiased", f"{o}: sum p*expval = {w @ per!r}, tr(rho H) = {want!r} (wire_map {labels})",
                       sig="expval-" + o["form"], features=dict(feats, form=o["form"]))
        # uniform weights = maximally mixed state: only the identity component survives
        ident = sum(c for c, wd in o["terms"] if set(wd) == {"I"})
        full = float(np.asarray(shadow.expval(op, k=1)))
        if abs(full - ident) > 1e-9 or abs(full - per.mean()) > 1e-9:
            raise Viol("expval-mean", f"{o}: full-enumeration shadow gives {full!r}, mean of per-snapshot values "
                                      f"{per.mean()!r}, identity coefficient {ident!r}", sig="expval-" + o["form"],
                       features=dict(feats, form=o["form"]))
    # k > 1: documented median of means over k equal parts, on a drawn multiset of snapshots
    if spec.get("rows"):
        rows = np.array(spec["rows"])
        kop = build_word(spec["kword"], labels)
        sub = qp.ClassicalShadow(bits[rows], recipes[rows], wire_map=list(labels))
        per_k = np.array([float(np.asarray(singles[t].expval(kop, k=1))) for t in rows])
        got = float(np.asarray(sub.expval(kop, k=spec["k"])))
        ref = median_of_means(per_k, spec["k"])
        if abs(got - ref) > 1e-9:
            raise Viol("median-of-means", f"word {spec['kword']} k={spec['k']} rows {rows.tolist()}: {got!r} != {ref!r}",
                       features=feats)
        if len({round(float(np.mean(per_k[i * (24 // spec['k']):(i + 1) * (24 // spec['k'])])), 9)
                for i in range(spec["k"])}) > 1:
            lab.append("median-of-means-nondegenerate")
    # a list of observables returns one value per observable
    both = np.asarray(singles[T // 2].expval(ops, k=1)).reshape(-1)
    sep = np.array([float(np.asarray(singles[T // 2].expval(op, k=1))) for op in ops])
    if both.shape != sep.shape or np.abs(both - sep).max() > 1e-12:
        raise Viol("expval-list", f"expval(list) = {both.tolist()} != {sep.tolist()}", features=feats)
    return Result(nontrivial, lab)


def _chi2_p(counts, probs, shots):
    from scipy.stats import chi2

    exp = probs * shots
    if np.any((exp < 1e-9) & (counts > 0)):
        return 0.0, "outcome of probability < 1e-9/shots observed"
    big = exp >= 8
    obs_c = list(counts[big]) + ([counts[~big].sum()] if (~big).any() and exp[~big].sum() > 0 else [])
    exp_c = list(exp[big]) + ([exp[~big].sum()] if (~big).any() and exp[~big].sum() > 0 else [])
    obs_c, exp_c = np.array(obs_c, float), np.array(exp_c, float)
    if len(exp_c) < 2:
        return 1.0, ""
    stat = float(((obs_c - exp_c) ** 2 / exp_c).sum())
    return float(chi2.sf(stat, len(exp_c) - 1)), f"chi2={stat:.1f} dof={len(exp_c) - 1}"


def _check_device(spec):
    import pennylane as qp

    n, wires, shots = spec["n"], list(spec["wires"]), spec["shots"]
    m = len(wires)
    rho = density(n, spec)
    red = reduce_to(rho, n, wires)
    ebits, erecs = enumerate_shadow(m)
    probs = weights(red, ebits, erecs)
    cell = {(tuple(r), tuple(b)): i for i, (r, b) in enumerate(zip(erecs.tolist(), ebits.tolist()))}
    feats = {"mode": "device", "dev": spec["dev"]}
    o = spec["obs"][0]
    H = build_obs(o, wires)

    def circuit_ops():
        a1, cn, a2 = spec["layers"]
        for j, (a, b, c) in enumerate(a1):
            qp.RX(a, j), qp.RY(b, j), qp.RZ(c, j)
        for c, t in cn:
            qp.CNOT([c, t])
        for j, (a, b, c) in enumerate(a2):
            qp.RX(a, j), qp.RY(b, j), qp.RZ(c, j)
        if spec.get("mix"):
            raise AssertionError("mixtures are not generated for device cases")
        for kind, w, p in spec.get("noise", []):
            (qp.DepolarizingChannel if kind == "depol" else qp.BitFlip)(p, wires=w)

    def run(T, dev_seed, seed, what="shadow", trivial=False):
        dev = qp.device(spec["dev"], wires=n, seed=dev_seed)

        @qp.set_shots(T)
        @qp.qnode(dev)
        def node():
            if not trivial:
                circuit_ops()
            else:
                for j in range(n):
                    qp.Identity(j)
            if what == "shadow":
                return qp.classical_shadow(wires=wires, seed=seed)
            return qp.shadow_expval(H, k=1, seed=seed)

        return np.asarray(node())

    def form(res, T):
        if res.shape != (2, T, m):
            raise Viol("device-shape", f"shape {res.shape} != (2, {T}, {m})", sig=spec["dev"], features=feats)
        if not np.issubdtype(res.dtype, np.integer):
            raise Viol("device-dtype", f"dtype {res.dtype}", sig=spec["dev"], features=feats)
        b, r = res
        if not set(np.unique(b)) <= {0, 1} or not set(np.unique(r)) <= {0, 1, 2}:
            raise Viol("device-values", f"bits {np.unique(b)} recipes {np.unique(r)}", sig=spec["dev"], features=feats)
        counts = np.zeros(len(probs))
        for rr, bb in zip(r.tolist(), b.tolist()):
            counts[cell[(tuple(rr), tuple(bb))]] += 1
        return counts

    res = run(shots, spec["dev_seed"], spec["seed"])
    counts = form(res, shots)
    again = run(shots, spec["dev_seed"], spec["seed"])
    if not np.array_equal(res, again):
        raise Viol("device-reproducible", "same device seed and measurement seed give different bits/recipes",
                   sig=spec["dev"], features=feats)
    other = run(shots, spec["dev_seed"] + 1, spec["seed"], trivial=True)
    if not np.array_equal(other[1], res[1]):
        raise Viol("recipes-from-seed", "recipes depend on something else than the measurement seed",
                   sig=spec["dev"], features=feats)
    p, info = _chi2_p(counts, probs, shots)
    if p < 1e-9:
        big = run(4 * shots, spec["dev_seed"] + 7, spec["seed"] + 7)
        p2, info2 = _chi2_p(form(big, 4 * shots), probs, 4 * shots)
        if p2 < 1e-9:
            raise Viol("device-distribution", f"(recipe, outcome) histogram inconsistent with exact probabilities: "
                                              f"p={p:.2g} ({info}), retry on 4x shots p={p2:.2g} ({info2}); wires {wires}",
                       sig=spec["dev"], features=feats)
    # shadow_expval: Hoeffding bound; per-snapshot value of a weight-w word lies in [-3^w, 3^w]
    want = np.trace(red @ obs_matrix(o)).real
    rng_bound = sum(abs(c) * 3 ** sum(l != "I" for l in wd) for c, wd in o["terms"])

    def bound(T):
        return rng_bound * math.sqrt(2 * math.log(2e9) / T) + 1e-9

    est = float(run(shots, spec["dev_seed"], spec["seed"], what="expval"))
    est_again = float(run(shots, spec["dev_seed"], spec["seed"], what="expval"))
    if est != est_again:
        raise Viol("device-reproducible", f"shadow_expval {est!r} vs {est_again!r} with equal seeds", sig=spec["dev"],
                   features=feats)
    if abs(est - want) > bound(shots):
        est2 = float(run(4 * shots, spec["dev_seed"] + 7, spec["seed"] + 7, what="expval"))
        if abs(est2 - want) > bound(4 * shots):
            raise Viol("shadow-expval", f"{o}: estimate {est!r} / {est2!r} vs exact {want!r} beyond Hoeffding bounds "
                                        f"{bound(shots):.3g} / {bound(4 * shots):.3g}", sig=spec["dev"], features=feats)
    nontrivial = bool(probs.std() > 1e-3)        # outcome distribution not uniform
    return Result(nontrivial, ["device", spec["dev"], f"shadow-wires-{m}-of-{n}", f"shots-{shots}"])


def selftest():
    # reference model: Bell state, partial trace, exact unbiasedness of the textbook inverse channel
    h = [[0.0, math.pi / 2, 0.0]]
    z = [[0.0, 0.0, 0.0]]
    psi = pure_state(2, [h + z, [[0, 1]], z + z])
    assert np.allclose(np.abs(psi), [2 ** -0.5, 0, 0, 2 ** -0.5])
    rho = np.outer(psi, psi.conj())
    assert np.allclose(reduce_to(rho, 2, [1]), I2 / 2)
    assert np.allclose(np.trace(rho @ word_matrix("XX")).real, 1) and np.allclose(np.trace(rho @ word_matrix("ZI")).real, 0)
    bits, recipes = enumerate_shadow(2)
    w = weights(rho, bits, recipes)
    assert abs(w.sum() - 1) < 1e-12
    acc = np.zeros((4, 4), dtype=complex)
    for t in range(len(bits)):
        acc += w[t] * kron(*[3 * (I2 + (-1) ** int(bits[t, i]) * PAULI[REC[recipes[t, i]]]) / 2 - I2 for i in range(2)])
    assert np.allclose(acc, rho)
    phi = pure_state(3, [[[0.3, 1.1, -0.4]] * 3, [[0, 2], [2, 1]], [[0.9, -0.2, 2.0]] * 3])
    r3 = np.outer(phi, phi.conj())
    assert np.allclose(reduce_to(r3, 3, [2, 0]), reduce_to(reduce_to(r3, 3, [0, 2]), 2, [1, 0]))
    assert median_of_means(np.array([1.0, 3.0, 5.0, 7.0, 0.0, 0.0]), 3) == 2.0
