"""C57 — state-preparation templates prepare their documented state from |0..0> (device and full decomposition)."""
from math import ceil, log2

import numpy as np
from hypothesis import strategies as st

from pv.engine import Reject, Result, Viol
from pv.ref import flatten as F
from pv.ref import sim

ID = "C57"
TECHNIQUE = ("hypothesis-generated target data per template (dense / sparse / signed / complex vectors, bitstrings, canonical MPS, "
             "dyadic rotation trees) with the documented state computed directly in numpy; compared with default.qubit and with an "
             "independent simulation of the fully recursive decomposition")
RULE = (
    "Per template (StatePrep, AmplitudeEmbedding incl. pad_with / normalize / sparse input, BasisState, BasisEmbedding, "
    "MottonenStatePreparation, MPSPrep, Superposition, QROMStatePreparation, SumOfSlatersPrep, MultiplexerStatePreparation, "
    "CosineWindow, PartialUnaryStatePreparation) a target on 1-4 wires with int/str labels in random order: vectors with generic "
    "complex / real signed / positive / special-value ({0,+-1,+-i,..}) / zero-masked amplitudes, unnormalised inputs with "
    "normalize=True, padded inputs, random bitstrings, right-canonical and generic MPS tensors (bond dimensions 1,2,4), unique basis "
    "sets with signed coefficients, sparse index sets in random order, optional / surplus / dynamically allocated work registers. "
    "QROMStatePreparation targets are built from rotation-tree angles and phases placed mid-bin of the m-bit grid, and the expected "
    "state uses the documented truncation to m binary digits. Oracle: the documented state (numpy, from the docstring formula) "
    "tensor |0..0> on every auxiliary wire equals (a) the default.qubit state of the template applied to |0..0> (also mid-circuit "
    "for StatePrep/AmplitudeEmbedding/BasisState), (b) the pv.ref.sim state of op.decomposition() and of every applicable registered "
    "rule, each expanded recursively down to table gates; exactly, or up to a global phase where the docstring says so (StatePrep, "
    "AmplitudeEmbedding). Tolerance 1e-7. Non-trivial: >= 2 non-zero amplitudes with different phases (>= one set bit for basis "
    "states, always for CosineWindow)."
)
ASSUMPTIONS = [
    "Inputs are normalised to 1e-12 unless normalize=True; MPS tensors have physical dimension 2 and power-of-two bonds with "
    "chi_j <= 2 chi_{j+1} (so that right-canonicalisation keeps the documented shapes); Superposition coefficients are real floats as "
    "documented.",
    "Global phase is ignored only for StatePrep / AmplitudeEmbedding (docstring: 'up to a global phase') and for single-entry sparse "
    "states (the only coefficient is a global phase); every other template must reproduce the documented amplitudes exactly.",
    "QROMStatePreparation is exercised on states whose tree angles sit mid-bin, so that the documented truncation is unambiguous under "
    "floating-point rounding; the expected state is the truncated one.",
    "Work-register sizes for SumOfSlatersPrep are taken from SumOfSlatersPrep.required_register_sizes (documented helper).",
]
BUDGET = {"quick": {"examples": 480}, "thorough": {"examples": 36000, "shards": 16}}
SHRINK_LISTS = ()
TOL = 1e-7

POOLS = [list(range(14)), list("abcdefghijklmn"), [3, "x", 0, "q1", 7, 2, "w", 11, "aux", 5, "b", 9, 1, "c"]]
NAMES = ["StatePrep", "AmplitudeEmbedding", "BasisState", "BasisEmbedding", "MottonenStatePreparation", "MPSPrep", "Superposition",
         "QROMStatePreparation", "SumOfSlatersPrep", "MultiplexerStatePreparation", "CosineWindow", "PartialUnaryStatePreparation"]
PHASE_FREE = ("StatePrep", "AmplitudeEmbedding")


# ---------------------------------------------------------------------------------------------
# generators
# ---------------------------------------------------------------------------------------------

def _pool():
    return st.sampled_from(POOLS).flatmap(st.permutations).map(list)


_SPECIAL = [(0, 0), (1, 0), (-1, 0), (0, 1), (0, -1), (0.5, 0.5), (0.5, -0.5), (1e-3, 0), (0, 0), (2, 0)]
_f = st.floats(-1, 1, allow_nan=False, allow_subnormal=False).map(lambda x: round(x, 6))


@st.composite
def _vector(draw, dim):
    kind = draw(st.sampled_from(["complex", "complex", "real", "positive", "special", "masked", "masked-real", "onehot", "uniform"]))
    if kind == "complex":
        v = [(draw(_f), draw(_f)) for _ in range(dim)]
    elif kind == "real":
        v = [(draw(_f), 0) for _ in range(dim)]
    elif kind == "positive":
        v = [(abs(draw(_f)) + 0.05, 0) for _ in range(dim)]
    elif kind == "special":
        v = [draw(st.sampled_from(_SPECIAL)) for _ in range(dim)]
    elif kind in ("masked", "masked-real"):
        v = [((draw(_f), draw(_f) if kind == "masked" else 0) if draw(st.booleans()) else (0, 0)) for _ in range(dim)]
    elif kind == "onehot":
        j = draw(st.integers(0, dim - 1))
        ph = draw(st.sampled_from([(1, 0), (-1, 0), (0, 1), (0.6, -0.8)]))
        v = [ph if i == j else (0, 0) for i in range(dim)]
    else:
        ph = draw(st.sampled_from([(1, 0), (-1, 0), (0, 1)]))
        v = [ph] * dim
    if sum(a * a + b * b for a, b in v) < 1e-2:
        v[draw(st.integers(0, dim - 1))] = (1, 0)
    return {"re": [float(a) for a, _ in v], "im": [float(b) for _, b in v], "kind": kind}


@st.composite
def _dense(draw, name, N):
    pool = draw(_pool())
    n = draw(st.sampled_from([1] + 2 * list(range(2, N + 1))))
    spec = {"t": name, "w": pool[:n], "aux": {}}
    if name in ("StatePrep", "AmplitudeEmbedding"):
        pad = draw(st.sampled_from([None, None, (0.0, 0.0), (0.5, 0.0), (0.0, -0.3), (1.0, 1.0)]))
        L = draw(st.integers(1, 2**n)) if pad is not None else 2**n
        spec["v"] = draw(_vector(L))
        spec["pad"] = list(pad) if pad is not None else None
        spec["normalize"] = draw(st.booleans())
        spec["scale"] = draw(st.sampled_from([1.0, 15.0, 0.01, 3.7])) if spec["normalize"] else 1.0
        spec["validate_norm"] = draw(st.sampled_from([None, True, False]))
        spec["sparse"] = name == "StatePrep" and pad is None and draw(st.sampled_from([False, False, True]))
        spec["mid"] = draw(st.booleans())
    else:
        spec["v"] = draw(_vector(2**n))
        if name == "MultiplexerStatePreparation":
            spec["check"] = draw(st.booleans())
    return spec


@st.composite
def _basis(draw, name, N):
    pool = draw(_pool())
    n = draw(st.integers(1, N + 1))
    bits = draw(st.lists(st.integers(0, 1), min_size=n, max_size=n))
    return {"t": name, "w": pool[:n], "aux": {}, "bits": bits, "as": draw(st.sampled_from(["list", "array", "bool", "tuple"])),
            "mid": draw(st.booleans())}


@st.composite
def _mps(draw, N):
    pool = draw(_pool())
    n = draw(st.integers(2, N))
    # bond dimensions chi_1..chi_{n-1} (chi_j <= 2 chi_{j+1}, chi_{n-1} <= 2, chi_1 <= 2)
    chis = [draw(st.sampled_from([1, 2, 2]))]
    for _ in range(n - 2):
        chis.insert(0, draw(st.sampled_from([c for c in (1, 2, 4) if c <= 2 * chis[0]])))
    if chis[0] > 2:
        chis[0] = 2
    mode = draw(st.sampled_from(["canonical", "canonical", "generic"]))
    cplx = draw(st.booleans())
    shapes = [(2, chis[0])] + [(chis[j - 1], 2, chis[j]) for j in range(1, n - 1)] + [(chis[-1], 2)]
    seeds = [draw(st.lists(_f, min_size=4, max_size=8)) for _ in shapes]
    k = int(log2(max(chis)))
    nw = max(k, 1) + draw(st.sampled_from([0, 0, 1])) if True else k
    return {"t": "MPSPrep", "w": pool[:n], "aux": {"work_wires": pool[n:n + nw]}, "shapes": [list(s) for s in shapes], "seeds": seeds,
            "mode": mode, "complex": cplx, "rc": draw(st.booleans()) if mode == "canonical" else True}


@st.composite
def _superposition(draw, N):
    pool = draw(_pool())
    n = draw(st.sampled_from([1] + 2 * list(range(2, N + 1))))
    m = draw(st.integers(1, min(2**n, 6)))
    idx = draw(st.lists(st.integers(0, 2**n - 1), min_size=m, max_size=m, unique=True))
    c = [draw(_f) for _ in range(m)]
    if sum(x * x for x in c) < 1e-2:
        c[0] = 1.0
    return {"t": "Superposition", "w": pool[:n], "aux": {"work_wire": pool[n:n + 1]}, "idx": idx, "c": c}


@st.composite
def _qrom_sp(draw, N):
    pool = draw(_pool())
    n = draw(st.sampled_from([1, 2, 2, 3, 3][:2 * min(N, 3) - 1]))
    m = draw(st.integers(1, 4))
    nw = draw(st.sampled_from([0, 0, 1, 2]))
    nodes = 2**n - 1
    bins = [draw(st.integers(0, 2**m - 1)) for _ in range(nodes)]
    phase_mode = draw(st.sampled_from(["none", "bins", "bins", "signs"]))
    if phase_mode == "bins":
        ph = [draw(st.integers(0, 2**m - 1)) for _ in range(2**n)]
    elif phase_mode == "signs":
        ph = [draw(st.integers(0, 1)) for _ in range(2**n)]
    else:
        ph = [0] * 2**n
    return {"t": "QROMStatePreparation", "w": pool[:n], "aux": {"precision_wires": pool[n:n + m], "work_wires": pool[n + m:n + m + nw]},
            "bins": bins, "phase_mode": phase_mode, "ph": ph}


@st.composite
def _sparse(draw, name, N):
    pool = draw(_pool())
    n = draw(st.sampled_from([1] + 2 * list(range(2, N + 1))))
    d = draw(st.sampled_from([1] + 3 * list(range(2, min(2**n, 6) + 1))))
    idx = draw(st.lists(st.integers(0, 2**n - 1), min_size=d, max_size=d, unique=True))
    v = draw(_vector(d))
    spec = {"t": name, "w": pool[:n], "idx": idx, "v": v}
    if name == "PartialUnaryStatePreparation":
        need = max(ceil(log2(d)) - 1, 1) if d > 1 else 1
        nw = draw(st.sampled_from([0, need, need, need + 1, need + 2]))
        spec["aux"] = {"work_wires": pool[n:n + nw]}
    else:
        spec["aux"] = {}
        spec["given"] = draw(st.sampled_from(["none", "all", "all", "some"]))
        spec["pick"] = draw(st.lists(st.booleans(), min_size=4, max_size=4))
        spec["pool"] = pool[n:]
    return spec


def _case(name, N):
    if name in ("StatePrep", "AmplitudeEmbedding", "MottonenStatePreparation", "MultiplexerStatePreparation"):
        return _dense(name, N)
    if name in ("BasisState", "BasisEmbedding"):
        return _basis(name, N)
    if name == "MPSPrep":
        return _mps(N)
    if name == "Superposition":
        return _superposition(N)
    if name == "QROMStatePreparation":
        return _qrom_sp(N)
    if name == "CosineWindow":
        return _pool().flatmap(lambda p: st.integers(1, N + 1).map(lambda n: {"t": "CosineWindow", "w": p[:n], "aux": {}}))
    return _sparse(name, N)


def strategy(tier):
    N = 3 if tier == "quick" else 4
    return st.sampled_from(NAMES).flatmap(lambda n: _case(n, N + (1 if tier == "quick" and n in ("MottonenStatePreparation", "StatePrep") else 0)))


def enumerate_cases(tier):
    for n in (1, 2, 3, 4, 5):
        yield {"t": "CosineWindow", "w": list(range(n)), "aux": {}}
    for n in (1, 2, 3):
        for i in range(2**n):
            yield {"t": "BasisState", "w": list(range(n)), "aux": {}, "bits": [(i >> (n - 1 - j)) & 1 for j in range(n)], "as": "list",
                   "mid": False}


# ---------------------------------------------------------------------------------------------
# documented target states (numpy only)
# ---------------------------------------------------------------------------------------------

def _vec(v):
    return np.asarray(v["re"], dtype=float) + 1j * np.asarray(v["im"], dtype=float)


def _unit(seed, d, cplx):
    """deterministic d x d unitary from a list of floats"""
    vals = np.array([seed[i % len(seed)] + 0.37 * (i // len(seed)) + 0.11 * np.sin(1.7 * i) for i in range(2 * d * d)])
    A = vals[:d * d].reshape(d, d) + (1j * vals[d * d:].reshape(d, d) if cplx else 0) + 1e-3 * np.eye(d)
    Q, R = np.linalg.qr(A)
    return Q * (np.diag(R) / np.abs(np.diag(R)))


def _mps_tensors(spec):
    shapes, seeds, cplx = spec["shapes"], spec["seeds"], spec["complex"]
    out = []
    for j, (shape, seed) in enumerate(zip(shapes, seeds)):
        size = int(np.prod(shape))
        if spec["mode"] == "generic":
            vals = np.array([seed[i % len(seed)] + 0.23 * (i // len(seed)) + 0.1 * np.cos(2.3 * i + j) for i in range(2 * size)])
            T = vals[:size] + (1j * vals[size:] if cplx else 0)
            out.append(T.reshape(shape))
        elif j == 0:
            vals = np.array([seed[i % len(seed)] + 0.23 * (i // len(seed)) + 0.1 * np.cos(2.3 * i) for i in range(2 * size)])
            T = vals[:size] + (1j * vals[size:] if cplx else 0)
            out.append((T / np.linalg.norm(T)).reshape(shape))
        else:
            rows = shape[0]
            cols = size // rows
            U = _unit(seed, cols, cplx)
            out.append(U[:rows, :].reshape(shape))
    return out


def _mps_state(tensors):
    """psi[i0..i_{n-1}] = A0[i0,:] A1[:,i1,:] ... A_{n-1}[:,i_{n-1}] (docstring layout)."""
    T = tensors[0]                                   # (2, chi)
    for A in tensors[1:-1]:
        T = np.tensordot(T, A, axes=([-1], [0]))     # (..., 2, chi')
    T = np.tensordot(T, tensors[-1], axes=([-1], [0]))
    return T.reshape(-1)


def _qrom_model(spec):
    """-> (input state with mid-bin angles, expected state with angles truncated to m binary digits)."""
    n = len(spec["w"])
    m = len(spec["aux"]["precision_wires"])
    bins, ph, mode = spec["bins"], spec["ph"], spec["phase_mode"]

    def build(frac_of, phase_of):
        amp = np.ones(1, dtype=complex)
        k = 0
        for level in range(n):
            new = np.zeros(2 * len(amp), dtype=complex)
            for j in range(len(amp)):
                t = frac_of(bins[k])                 # theta / pi in [0, 1):  RY(theta) on |0> = cos(theta/2)|0> + sin(theta/2)|1>
                k += 1
                new[2 * j] = amp[j] * np.cos(np.pi * t / 2)
                new[2 * j + 1] = amp[j] * np.sin(np.pi * t / 2)
            amp = new
        return amp * np.exp(2j * np.pi * np.array([phase_of(p) for p in ph]))

    if mode == "bins":
        pin, pout = (lambda b: (b + 0.5) / 2**m), (lambda b: b / 2**m)
    elif mode == "signs":
        pin = pout = (lambda b: 0.5 * b)            # phase pi: exactly representable for m >= 1
    else:
        pin = pout = (lambda b: 0.0)
    vin = build(lambda b: (b + 0.5) / 2**m, pin)
    vout = build(lambda b: b / 2**m, pout)
    return vin, vout


def target(spec):
    """-> (psi on spec['w'], data passed to the template)"""
    t = spec["t"]
    n = len(spec["w"])
    if t in ("StatePrep", "AmplitudeEmbedding"):
        v = _vec(spec["v"])
        pad = complex(*spec["pad"]) if spec["pad"] is not None else None
        full = np.concatenate([v, np.full(2**n - len(v), pad)]) if pad is not None else v
        if np.linalg.norm(full) < 1e-3:
            raise Reject("zero vector")
        s = np.linalg.norm(full)
        psi = full / s
        if spec["normalize"]:
            k = spec["scale"] / s
            return psi, {"v": v * k, "pad": None if pad is None else pad * k}
        return psi, {"v": v / s, "pad": None if pad is None else pad / s}
    if t in ("MottonenStatePreparation", "MultiplexerStatePreparation"):
        v = _vec(spec["v"])
        return v / np.linalg.norm(v), {"v": v / np.linalg.norm(v)}
    if t in ("BasisState", "BasisEmbedding"):
        psi = np.zeros(2**n, dtype=complex)
        psi[F.basis_index(spec["bits"])] = 1
        return psi, {}
    if t == "MPSPrep":
        tensors = _mps_tensors(spec)
        psi = _mps_state(tensors)
        return psi / np.linalg.norm(psi), {"mps": tensors}
    if t == "Superposition":
        c = np.asarray(spec["c"], dtype=float)
        c = c / np.linalg.norm(c)
        psi = np.zeros(2**n, dtype=complex)
        psi[spec["idx"]] = c
        return psi, {"c": c}
    if t == "QROMStatePreparation":
        vin, vout = _qrom_model(spec)
        return vout, {"v": vin}
    if t == "CosineWindow":
        k = np.arange(2**n)
        return (np.sqrt(2.0 ** (1 - n)) * np.cos(np.pi * k / 2**n - np.pi / 2)).astype(complex), {}
    if t in ("SumOfSlatersPrep", "PartialUnaryStatePreparation"):
        c = _vec(spec["v"])
        c = c / np.linalg.norm(c)
        psi = np.zeros(2**n, dtype=complex)
        psi[spec["idx"]] = c
        return psi, {"c": c}
    raise KeyError(t)


def _w(w):
    return tuple(w) if isinstance(w, list) else w


def aux_registers(spec):
    """auxiliary registers actually handed to the template: [(name, wires)]"""
    if spec["t"] == "SumOfSlatersPrep" and spec.get("given", "none") != "none":
        import pennylane as qp

        sizes = qp.SumOfSlatersPrep.required_register_sizes(tuple(spec["idx"]), len(spec["w"])) if len(spec["idx"]) > 1 else {}
        names = ["enumeration_wires", "identification_wires", "qrom_work_wires", "mcx_cache_wires"]
        out, i = [], 0
        for name, pick in zip(names, spec["pick"]):
            k = int(sizes.get(name, 0))
            if spec["given"] == "all" or pick:
                out.append((name, [_w(x) for x in spec["pool"][i:i + k]]))
                i += k
        if i > len(spec["pool"]):
            raise Reject("not enough labels for the work registers")
        return out
    return [(k, [_w(x) for x in v]) for k, v in spec["aux"].items()]


def build(spec, data, aux):
    import pennylane as qp

    t = spec["t"]
    w = [_w(x) for x in spec["w"]]
    A = dict(aux)
    if t in ("StatePrep", "AmplitudeEmbedding"):
        kw = {"pad_with": data["pad"], "normalize": spec["normalize"]}
        if spec["validate_norm"] is not None:
            kw["validate_norm"] = spec["validate_norm"]
        v = data["v"]
        if np.allclose(v.imag, 0) and (data["pad"] is None or abs(complex(data["pad"]).imag) < 1e-300):
            v = v.real
            if data["pad"] is not None:
                kw["pad_with"] = float(complex(data["pad"]).real)
        if spec.get("sparse"):
            import scipy.sparse as sp

            v = sp.csr_matrix(v.reshape(1, -1))
        return getattr(qp, t)(v, wires=w, **kw)
    if t == "MottonenStatePreparation":
        return qp.MottonenStatePreparation(data["v"], wires=w)
    if t == "MultiplexerStatePreparation":
        return qp.MultiplexerStatePreparation(data["v"], w, check=spec.get("check", False))
    if t in ("BasisState", "BasisEmbedding"):
        b = {"list": list, "tuple": tuple, "array": np.array, "bool": lambda x: np.array(x, dtype=bool)}[spec["as"]](spec["bits"])
        return getattr(qp, t)(b, wires=w)
    if t == "MPSPrep":
        return qp.MPSPrep(data["mps"], wires=w, work_wires=A["work_wires"], right_canonicalize=spec["rc"])
    if t == "Superposition":
        n = len(w)
        bases = [[(i >> (n - 1 - j)) & 1 for j in range(n)] for i in spec["idx"]]
        return qp.Superposition(data["c"], bases, w, A["work_wire"][0])
    if t == "QROMStatePreparation":
        return qp.QROMStatePreparation(data["v"], w, A["precision_wires"], A["work_wires"] or None)
    if t == "CosineWindow":
        return qp.CosineWindow(wires=w)
    if t == "SumOfSlatersPrep":
        return qp.SumOfSlatersPrep(data["c"], w, tuple(spec["idx"]), **A)
    if t == "PartialUnaryStatePreparation":
        return qp.PartialUnaryStatePreparation(data["c"], w, tuple(spec["idx"]), A["work_wires"])
    raise KeyError(t)


# ---------------------------------------------------------------------------------------------
# oracle
# ---------------------------------------------------------------------------------------------

def _queue_sig(raw):
    return [(type(o).__name__, tuple(map(repr, getattr(o, "wires", ()))), repr(getattr(o, "data", ()))[:400]) for o in raw]


def _routes(op):
    from pv.ref import rules as R

    out = []
    if getattr(op, "has_decomposition", False):
        out.append(("decomposition", lambda: list(op.decomposition())))
    params, _, _ = R.call_convention(op)
    for rule in R.listed_rules(op):
        if rule.is_applicable(**params):
            out.append(("rule:" + str(getattr(rule, "name", "?")), (lambda rule=rule: list(R.run_rule(op, rule).raw))))
    return out


def _judge(Y, psi, n_aux, t, route, spec, feats):
    """Y: state on (w + aux...) ; psi on w."""
    Y = np.asarray(Y, dtype=complex).reshape(len(psi), 2**n_aux)
    main = Y[:, 0]
    leak = float(np.sum(np.abs(Y[:, 1:]) ** 2)) if n_aux else 0.0
    phase_free = t in PHASE_FREE or feats.get("single_entry", False)
    ok = leak < 1e-12 and (sim.allclose_phase(main, psi, TOL) if phase_free else np.abs(main - psi).max() <= TOL)
    if ok:
        return bool(not phase_free or np.abs(main - psi).max() <= TOL)
    if leak >= 1e-12:
        clause = "aux-wires-not-clean"
    elif sim.allclose_phase(main, psi, TOL):
        clause = "global-phase"
    elif not np.all(np.isfinite(main)):
        clause = "nan-state"
    else:
        clause = "wrong-state"
    j = int(np.argmax(np.abs(main - psi)))
    raise Viol(clause, f"{t} via {route}: spec={ {k: v for k, v in spec.items() if k not in ('pool',)} } expected amp[{j}]={psi[j]:.6g} got "
               f"{main[j]:.6g}; max|diff|={np.abs(main - psi).max():.3g}, overlap={abs(np.vdot(psi, main)):.6f}, aux leak={leak:.3g}",
               sig=f"{t}/{route}", features=dict(feats, route=route))


def _guarded(fn, t, route, spec, feats):
    """Run code under test; an exception raised inside PennyLane on a documented-valid input is a violation of its own."""
    try:
        return fn()
    except (Reject, Viol):
        raise
    except Exception as e:  # noqa: BLE001
        from pv.engine import _origin

        origin, where = _origin(e.__traceback__)
        if origin != "sut":
            raise
        raise Viol("raises", f"{t} via {route}: {type(e).__name__}: {str(e)[:300]} ({where}); spec="
                   f"{ {k: v for k, v in spec.items() if k != 'pool'} }", sig=f"{t}/{route}:{type(e).__name__}@{where}",
                   features=dict(feats, route=route, exc=type(e).__name__, where=where)) from None


def check(spec):
    import pennylane as qp

    t = spec["t"]
    psi, data = target(spec)
    aux = aux_registers(spec)
    w = [_w(x) for x in spec["w"]]
    auxw = [x for _, ws in aux for x in ws]
    order = w + auxw
    kind = spec.get("v", {}).get("kind") if isinstance(spec.get("v"), dict) else None
    feats = {"template": t, "kind": kind}
    if t in ("SumOfSlatersPrep", "PartialUnaryStatePreparation") and len(spec["idx"]) == 1:
        feats["single_entry"] = True          # the only coefficient is a global phase
    if spec.get("sparse"):
        feats["csr"] = True
    if t == "MPSPrep":
        feats["mps"] = f"{spec['mode']}:{len(w)}-site"
    op = _guarded(lambda: build(spec, data, aux), t, "constructor", spec, feats)
    if set(op.wires) - set(order):
        raise Viol("foreign-wires", f"{t}: op.wires={list(op.wires)} not within {order}", sig=t, features=feats)
    labels = [t, f"{t}:n={len(w)}"] + ([f"kind:{kind}"] if kind else [])
    for key in ("mode", "phase_mode", "given"):
        if key in spec:
            labels.append(f"{t}:{key}={spec[key]}")
    if spec.get("pad") is not None:
        labels.append(f"{t}:pad")
    if spec.get("normalize"):
        labels.append(f"{t}:normalize")
    if spec.get("sparse"):
        labels.append(f"{t}:csr")
    seen, max_dyn = [], 0
    exact = True
    for rname, thunk in _routes(op):
        raw = _guarded(thunk, t, rname, spec, feats)
        qs = _queue_sig(raw)
        if qs in seen and not any(type(o).__name__ == "Allocate" for o in raw):
            continue
        seen.append(qs)
        leaves, dyn = _guarded(lambda: F.flatten(raw), t, rname, spec, feats)
        dynw = [d["wire"] for d in dyn]
        max_dyn = max(max_dyn, len(dynw))
        full = order + dynw
        stray = [x for x in F.wires_of(leaves) if x not in full]
        if stray:
            raise Viol("foreign-wires", f"{t} via {rname}: decomposition touches {stray} outside {order}", sig=f"{t}/{rname}", features=feats)
        if len(full) > 16:
            raise Reject("more than 16 wires")
        X = np.zeros((2 ** len(full), 1), dtype=complex)
        X[0, 0] = 1
        with F.guard():
            Y = F.run_batch(leaves, full, X)[:, 0]
        exact &= _judge(Y, psi, len(full) - len(w), t, rname, spec, feats)
        labels.append(f"{t}/{rname}")
        if dynw:
            labels.append(f"{t}:dynamic-wires")
    # device
    spare = [f"_spare{i}" for i in range(max_dyn)]
    dev = qp.device("default.qubit", wires=order + spare)
    for mid in ([False, True] if spec.get("mid") else [False]):
        @qp.qnode(dev)
        def circ():
            if mid:
                qp.PauliX(w[0])
                qp.PauliX(w[0])
            build(spec, data, aux)
            return qp.state()

        route = "device-mid-circuit" if mid else "device"
        Y = np.asarray(_guarded(circ, t, route, spec, feats), dtype=complex)
        exact &= _judge(Y, psi, len(order) + len(spare) - len(w), t, route, spec, feats)
        labels.append(f"{t}/{route}")
    nz = psi[np.abs(psi) > 1e-9]
    if t in ("BasisState", "BasisEmbedding"):
        nontrivial = any(spec["bits"])
    elif t == "CosineWindow":
        nontrivial = True
    else:
        nontrivial = len(nz) >= 2 and np.abs(nz / np.abs(nz) - nz[0] / abs(nz[0])).max() > 1e-6
    if not exact:
        labels.append(f"{t}:global-phase-differs")
    labels.append("amps>=2" if len(nz) >= 2 else "amps=1")
    return Result(nontrivial, labels)


def selftest():
    F.selftest()
    # MPS contraction on the docstring example
    mps = [np.array([[0.0, 0.107], [0.994, 0.0]]),
           np.array([[[0.0, 0.0], [1.0, 0.0]], [[0.0, 1.0], [0.0, 0.0]]]),
           np.array([[-1.0, -0.0], [-0.0, -1.0]])]
    psi = _mps_state(mps)
    assert np.allclose(psi, [0, -0.107, 0, 0, 0, 0, -0.994, 0])
    # right-canonical generator fulfils the documented condition
    spec = {"shapes": [[2, 2], [2, 2, 4], [4, 2, 2], [2, 2]], "seeds": [[0.1, 0.7, -0.3, 0.5]] * 4, "mode": "canonical", "complex": True}
    T = _mps_tensors(spec)
    for A in T[1:-1]:
        assert np.allclose(np.tensordot(A, A.conj(), axes=([1, 2], [1, 2])), np.eye(A.shape[0]))
    assert np.allclose(T[-1] @ T[-1].conj().T, np.eye(2))
    assert abs(np.linalg.norm(_mps_state(T)) - 1) < 1e-12
    # QROM model: documented example probs (0.5, 0, 0.25, 0.25) has angles 1/2, 0, 1/2 -> bins 4, 0, 4 of 8
    q = {"w": [0, 1], "aux": {"precision_wires": [2, 3, 4]}, "bins": [4, 0, 4], "ph": [0] * 4, "phase_mode": "none"}
    _, vout = _qrom_model(q)
    assert np.allclose(np.abs(vout) ** 2, [0.5, 0, 0.25, 0.25])
    k = np.arange(4)
    assert np.allclose((np.sqrt(0.5) * np.cos(np.pi * k / 4 - np.pi / 2)) ** 2, [0, 0.25, 0.5, 0.25])
