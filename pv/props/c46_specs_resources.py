"""C46 — qp.specs and tape resource summaries report what the circuit contains; Expression/Resources algebra."""
import itertools
from collections import Counter

import numpy as np
from hypothesis import strategies as st

from pv import gen, specs
from pv.engine import Reject, Result, Viol

ID = "C46"
TECHNIQUE = ("hypothesis-generated circuits / QNodes with transform pipelines at every documented level vs a direct walk over the "
             "circuit with an independent longest-path depth; symbolic resource expressions vs an own polynomial model")
RULE = (
    "Mode tape: circuits (1-6 wires, <= 20 ops from the gate zoo incl. MultiRZ/PauliRot/QubitUnitary/MultiControlledX, adjoint/"
    "pow/ctrl wrappers, templates; int/str wires; 1-3 measurements) -> resources_from_tape(compute_depth on/off) and tape.specs. "
    "Mode qnode: the same circuits as default.qubit QNodes (device wires given or not, shots or analytic, diff_method) under 0-3 "
    "user transforms (cancel_inverses, merge_rotations, commute_controlled, single_qubit_fusion, unitary_to_rot, remove_barrier, "
    "undo_swaps, optional trailing split_non_commuting, optional marker) and qp.specs at level 0/top/user/int/slice/marker/"
    "gradient/device/None. Oracle: Counter of operator names, number of operations, measurement count (documented key format for "
    "simple observables), number of distinct wires, and depth = longest path of the wire-dependency DAG computed by ASAP "
    "layering, all on the circuit expected at that level (user-level circuits are obtained by applying the transforms by hand to "
    "the tape built from the spec; gradient/device levels through construct_batch); CircuitSpecs level/shots/device fields; "
    "aliases depth/quantum_operations/to_dict. Mode algebra: random integer polynomials built with Expression +,* and ints, "
    "partial/full subs, Resources/SpecsResources with nested dicts -> own dict-of-monomials model evaluated at random points; "
    "vars, is_symbolic, total_quantum_operations, ==/hash with ints. Non-trivial: >= 3 gate types and depth < number of ops "
    "(tape/qnode), or >= 2 variables with a product term (algebra)."
)
ASSUMPTIONS = [
    "Operators without wires (GlobalPhase(), Snapshot) and work wires are excluded: how they enter depth / wire counts is not documented.",
    "For generic Controlled operators only the total over controlled entries is compared (the 'nC(base)' key format is not documented).",
]
BUDGET = {"quick": {"examples": 400}, "thorough": {"examples": 20000, "shards": 16}}
SHRINK_LISTS = ("ops", "meas", "transforms", "terms")

USER_TRANSFORMS = ["cancel_inverses", "merge_rotations", "commute_controlled", "single_qubit_fusion", "unitary_to_rot", "remove_barrier",
                   "undo_swaps"]


# ---------------------------------------------------------------------------------------------
# strategies
# ---------------------------------------------------------------------------------------------

@st.composite
def wrapped(draw, wires):
    r = draw(st.integers(0, 2))
    if r == 0:
        return {"op": "adjoint", "base": draw(gen.gate(wires))}
    if r == 1:
        return {"op": "pow", "base": draw(gen.gate(wires)), "z": draw(st.sampled_from([2, 3, 0.5]))}
    nw = len(wires)
    if nw < 2:
        return draw(gen.gate(wires))
    k = draw(st.integers(1, min(3, nw - 1)))
    ws = draw(gen.subset(wires, nw))
    pool = {n: v for n, v in gen.ALL_GATES.items() if v[1] <= nw - k and v[1] <= 2}
    return {"op": "ctrl", "base": draw(gen.gate(ws[k:], pool)), "cw": ws[:k], "cv": draw(st.lists(st.integers(0, 1), min_size=k, max_size=k))}


@st.composite
def template(draw, wires):
    k = draw(st.integers(1, min(3, len(wires))))
    ws = draw(gen.subset(wires, k))
    kind = draw(st.sampled_from(["SEL", "AE", "BEL", "QFT"]))
    if kind == "SEL":
        return {"op": "StronglyEntanglingLayers", "p": [[[[0.1 * (i + j + 1), 0.2, 0.3] for i in range(k)] for j in range(draw(st.integers(1, 2)))]], "w": ws}
    if kind == "AE":
        return {"op": "AngleEmbedding", "p": [[0.3 * (i + 1) for i in range(k)]], "w": ws}
    if kind == "BEL":
        return {"op": "BasicEntanglerLayers", "p": [[[0.2 * (i + 1) for i in range(k)]]], "w": ws}
    return {"op": "QFT", "p": [], "w": ws}


@st.composite
def circuit(draw, tier):
    n = draw(st.integers(1, 6))
    wires = draw(gen.wire_labels(n))
    depth = draw(st.integers(1, 20 if tier == "quick" else 40))
    ops = []
    for _ in range(depth):
        r = draw(st.integers(0, 99))
        if ops and r < 25:
            ops.append(draw(gen.derive(ops[-1], wires)))
        elif r < 70:
            ops.append(draw(gen.gate(wires)))
        elif r < 82:
            ops.append(draw(gen.extra_gate(wires)))
        elif r < 94:
            ops.append(draw(wrapped(wires)))
        else:
            ops.append(draw(template(wires)))
    ops = [o for o in ops if "GlobalPhase" not in repr(o)] or [{"op": "Hadamard", "p": [], "w": wires[:1]}]   # wire-less operator, see ASSUMPTIONS
    meas = draw(st.lists(st.one_of(gen.analytic_measurement(wires, with_state=False),
                                   gen.pauli_word_obs(wires).map(lambda o: {"mp": "expval", "obs": o})), min_size=1, max_size=3))
    return {"ops": ops, "meas": meas, "wires": wires}


@st.composite
def tape_case(draw, tier):
    c = draw(circuit(tier))
    c.update(mode="tape", compute_depth=draw(st.sampled_from([True, True, False])), shots=draw(st.sampled_from([None, 100])))
    # mid-circuit measurements with conditionals on *other* wires: the classical dependency is part of the critical path
    mcm = []
    if len(c["wires"]) >= 2 and draw(st.integers(0, 2)) == 0:
        for _ in range(draw(st.integers(1, 3))):
            mw, cw = draw(gen.subset(c["wires"], 2))
            a = draw(st.integers(0, len(c["ops"])))
            b = draw(st.integers(a, len(c["ops"])))
            mcm.append({"mwire": mw, "cwire": cw, "at": a, "cond_at": b, "gate": draw(st.sampled_from(["PauliX", "Hadamard", "S"]))})
    c["mcm"] = mcm
    return c


@st.composite
def qnode_case(draw, tier):
    c = draw(circuit(tier))
    ntf = draw(st.sampled_from([2, 1, 3, 2, 1, 0]))
    tfs = draw(st.lists(st.sampled_from(USER_TRANSFORMS), min_size=ntf, max_size=ntf))
    marker_at = draw(st.one_of(st.integers(0, len(tfs)), st.none()))
    split = draw(st.integers(0, 4)) == 0
    nt = len(tfs)
    levels = [None, "user", "device", None, "gradient", 0, "top"] + list(range(1, nt + 1))
    if nt >= 1:
        levels += [["slice", a, b] for a in range(0, nt) for b in range(a + 1, nt + 1)]
    if marker_at is not None:
        levels = ["MARK", "MARK"] + levels
    c.update(mode="qnode", transforms=tfs, marker_at=marker_at, split=split, level=draw(st.sampled_from(levels)),
             compute_depth=draw(st.sampled_from([None, True, False])), shots=draw(st.sampled_from([None, None, 50])),
             dev_wires=draw(st.booleans()), diff=draw(st.sampled_from(["parameter-shift", "backprop", "best", None])))
    return c


VARS = ["a", "b", "c", "n"]
small = st.integers(-3, 4)


@st.composite
def poly(draw, depth=0):
    """Expression AST: ["int", k] | ["var", name] | ["+", x, y] | ["*", x, y]."""
    r = draw(st.integers(0, 9))
    if depth >= 3 or r < 3:
        return draw(st.one_of(st.tuples(st.just("int"), small).map(list), st.tuples(st.just("var"), st.sampled_from(VARS)).map(list),
                              st.tuples(st.just("var"), st.sampled_from(VARS)).map(list)))
    return [draw(st.sampled_from(["+", "*", "+"])), draw(poly(depth + 1)), draw(poly(depth + 1))]


@st.composite
def algebra_case(draw):
    names = draw(st.lists(st.sampled_from(["RX", "CNOT", "H", "T", "Toffoli", "QFT"]), min_size=1, max_size=4, unique=True))
    return {"mode": "algebra", "terms": [[nm, draw(poly())] for nm in names], "nested": draw(st.booleans()),
            "point": {v: draw(st.integers(0, 5)) for v in VARS}, "partial": draw(st.lists(st.sampled_from(VARS), unique=True, max_size=3)),
            "kw": draw(st.booleans()), "meas": draw(poly()), "wires": draw(poly())}


def strategy(tier):
    return st.one_of(tape_case(tier), tape_case(tier), qnode_case(tier), qnode_case(tier), algebra_case())


# ---------------------------------------------------------------------------------------------
# direct walk + independent depth
# ---------------------------------------------------------------------------------------------

def asap_depth(ops):
    """Longest path (in operations) of the dependency DAG, by as-soon-as-possible layering: an operation depends on
    the previous operation on each of its wires and, for a classically controlled operation, on the mid-circuit
    measurement(s) whose outcome it reads."""
    level = {}
    mlevel = {}
    best = 0
    for op in ops:
        ws = list(op.wires)
        if not ws:
            raise Reject("operator without wires")
        d = 1 + max(level.get(w, 0) for w in ws)
        if type(op).__name__ == "Conditional":
            d = max(d, 1 + max([mlevel.get(id(m), 0) for m in op.meas_val.measurements] or [0]))
        if type(op).__name__ == "MidMeasure":
            mlevel[id(op)] = d
        for w in ws:
            level[w] = d
        best = max(best, d)
    return best


def generic_controlled(op):
    return type(op).__name__ in ("Controlled", "ControlledOp", "Controlled2", "ControlledOp2")


def simple_meas_key(mp, num_wires):
    """Documented key for the simple cases, else None."""
    kind = type(mp).__name__
    short = {"ExpectationMP": "expval", "VarianceMP": "var", "ProbabilityMP": "probs"}.get(kind)
    if short is None:
        return None
    if mp.obs is None:
        return f"{short}(all wires)" if len(mp.wires) in (0, num_wires) else None
    if type(mp.obs).__name__ in ("PauliX", "PauliY", "PauliZ", "Hadamard", "Hermitian"):
        return f"{short}({type(mp.obs).__name__})"
    return None


def compare(res, tape, compute_depth, what):
    ops = list(tape.operations)
    plain = Counter(op.name for op in ops if not generic_controlled(op))
    n_ctrl = sum(1 for op in ops if generic_controlled(op))
    counts = dict(res.quantum_operations)
    got_plain = {k: v for k, v in counts.items() if k in plain}
    rest = {k: v for k, v in counts.items() if k not in plain}
    if got_plain != dict(plain):
        raise Viol("gate-counts", f"{what}: reported {counts} circuit has {dict(plain)} (+{n_ctrl} generic controlled)", sig="counts")
    if sum(rest.values()) != n_ctrl:
        raise Viol("gate-counts", f"{what}: entries {rest} should account for {n_ctrl} generic controlled operations", sig="controlled")
    if any(v <= 0 for v in counts.values()):
        raise Viol("gate-counts", f"{what}: non-positive count in {counts}")
    if res.total_quantum_operations != len(ops):
        raise Viol("total-operations", f"{what}: total_quantum_operations={res.total_quantum_operations}, circuit has {len(ops)}")
    wires = []
    for o in ops + list(tape.measurements):
        for w in o.wires:
            if w not in wires:
                wires.append(w)
    if res.num_wires != len(wires):
        raise Viol("num-wires", f"{what}: num_wires={res.num_wires}, circuit touches {len(wires)} wires {wires}")
    mps = dict(res.measurement_processes)
    if sum(mps.values()) != len(tape.measurements):
        raise Viol("measurement-count", f"{what}: {mps} for {len(tape.measurements)} measurements")
    want = Counter()
    unknown = 0
    for mp in tape.measurements:
        k = simple_meas_key(mp, len(wires))
        if k is None:
            unknown += 1
        else:
            want[k] += 1
    for k, v in want.items():
        if mps.get(k, 0) < v:
            raise Viol("measurement-keys", f"{what}: expected at least {v} x '{k}' in {mps}")
    if sum(v for k, v in mps.items()) - sum(want.values()) != unknown:
        raise Viol("measurement-keys", f"{what}: {mps} vs simple keys {dict(want)} + {unknown} others")
    if compute_depth:
        d = asap_depth(ops)
        if res.circuit_depth != d or res.depth != d or res["depth"] != d:
            raise Viol("depth", f"{what}: circuit_depth={res.circuit_depth}, longest path of the wire-dependency DAG is {d} "
                       f"({len(ops)} ops: {[str(o)[:30] for o in ops][:14]})", sig="depth")
    elif res.circuit_depth is not None or res.depth is not None:
        raise Viol("depth", f"{what}: depth {res.circuit_depth} reported although compute_depth=False", sig="depth-not-requested")
    if res["quantum_operations"] != res.counts or res.to_dict()["quantum_operations"] != res.counts:
        raise Viol("aliases", f"{what}: quantum_operations alias differs from counts")
    return len(plain) + (1 if n_ctrl else 0), (asap_depth(ops) if ops else 0), len(ops)


# ---------------------------------------------------------------------------------------------

def check_tape(qp, spec):
    tape = specs.build_tape({"ops": spec["ops"], "meas": spec["meas"], "shots": spec["shots"]})
    if spec.get("mcm"):
        ops = list(tape.operations)
        inserts = []
        for k, mc in enumerate(spec["mcm"]):
            with qp.queuing.AnnotatedQueue() as q:
                m = qp.measure(specs.wire(mc["mwire"]))
                qp.cond(m, getattr(qp, mc["gate"]))(specs.wire(mc["cwire"]))
            mid, cond = [o for o in q.queue]
            inserts.append((min(mc["at"], len(ops)), 0, k, mid))
            inserts.append((min(mc["cond_at"], len(ops)), 1, k, cond))
        for pos, _, _, o in sorted(inserts, key=lambda t: (t[0], t[1], t[2]), reverse=True):
            ops.insert(pos, o)
        # the measurement must precede its conditional: stable order by (position, kind) guarantees it for equal positions
        tape = qp.tape.QuantumScript(ops, tape.measurements, shots=tape.shots)
    res = qp.resource.resources_from_tape(tape, compute_depth=spec["compute_depth"])
    ntypes, depth, nops = compare(res, tape, spec["compute_depth"], "resources_from_tape")
    sp = tape.specs
    compare(sp["resources"], tape, True, "tape.specs")
    if sp["shots"] != tape.shots:
        raise Viol("specs-shots", f"{sp['shots']} vs {tape.shots}")
    return Result(ntypes >= 3 and depth < nops, ["tape", f"types{min(ntypes, 6)}", "depth<ops" if depth < nops else "depth=ops",
                                                 "depth-on" if spec["compute_depth"] else "depth-off"])


def check_qnode(qp, spec):  # noqa: C901
    from pennylane import numpy as pnp

    wires = [specs.wire(w) for w in spec["wires"]]
    dev = qp.device("default.qubit", wires=wires) if spec["dev_wires"] else qp.device("default.qubit")
    meas = spec["meas"]
    if spec["split"]:
        w0 = wires[0]
        meas = [{"mp": "expval", "obs": {"op": "PauliX", "w": [spec["wires"][0]]}}, {"mp": "expval", "obs": {"op": "PauliZ", "w": [spec["wires"][0]]}}] + \
               [m for m in meas if m["mp"] == "expval"][:1]
        del w0
    if spec["shots"]:
        meas = [m for m in meas if m["mp"] != "var" or True]

    def qfunc(x):
        qp.RX(x, wires=wires[0])
        for o in spec["ops"]:
            specs.build_op(o)
        return tuple(specs.build_meas(m) for m in meas)

    kw = {} if spec["diff"] is None else {"diff_method": spec["diff"]}
    qnode = qp.QNode(qfunc, dev, **kw)
    if spec["shots"]:
        qnode = qp.set_shots(qnode, shots=spec["shots"])
    tfs = [getattr(qp.transforms, n) for n in spec["transforms"]]
    applied = list(tfs)
    for i, t in enumerate(tfs):
        if spec["marker_at"] == i:
            qnode = qp.marker("MARK")(qnode)
        qnode = t(qnode)
    if spec["marker_at"] == len(tfs):
        qnode = qp.marker("MARK")(qnode)
    if spec["split"]:
        qnode = qp.transforms.split_non_commuting(qnode)
        applied.append(qp.transforms.split_non_commuting)
    lvl = spec["level"]
    level = slice(lvl[1], lvl[2]) if isinstance(lvl, list) else lvl
    x = pnp.array(0.4321, requires_grad=True)
    # ---- expected circuits at that level
    raw = qp.tape.QuantumScript([qp.RX(x, wires=wires[0])] + [specs.build_op(o) for o in spec["ops"]],
                                [specs.build_meas(m) for m in meas], shots=spec["shots"])
    user_levels = {0: 0, "top": 0, "user": len(applied), "MARK": spec["marker_at"]}
    if isinstance(lvl, list):
        chain = applied[lvl[1]:lvl[2]]
    elif isinstance(lvl, int) and not isinstance(lvl, bool):
        chain = applied[:lvl]
    elif lvl in user_levels:
        chain = applied[:user_levels[lvl]]
    else:
        chain = None
    if chain is not None:
        batch = [raw]
        try:
            for t in chain:
                new = []
                for tp in batch:
                    tapes, _ = t(tp)
                    new.extend(tapes)
                batch = new
        except Exception as e:  # noqa: BLE001  (validity of the optimisation passes themselves is C17's subject)
            raise Reject(f"user transform cannot process this circuit: {type(e).__name__}") from None
        how = "hand-applied"
    else:
        try:
            batch, _ = qp.workflow.construct_batch(qnode, level="gradient" if lvl is None else lvl)(x)
        except qp.exceptions.QuantumFunctionError as e:
            if "does not support" in str(e) or "not supported" in str(e):
                raise Reject("diff_method/device combination rejected (documented)") from None
            raise
        except Exception as e:  # noqa: BLE001
            raise Reject(f"pipeline cannot process this circuit: {type(e).__name__}") from None
        how = "construct_batch"
    try:
        out = qp.specs(qnode, level=level, compute_depth=spec["compute_depth"])(x)
    except qp.exceptions.QuantumFunctionError as e:
        if "does not support" in str(e) or "not supported" in str(e):
            raise Reject("diff_method/device combination rejected (documented)") from None
        raise
    res = out.resources
    res_list = res if isinstance(res, list) else [res]
    if len(res_list) != len(batch):
        raise Viol("batch-size", f"level={lvl}: {len(res_list)} resource objects for {len(batch)} circuits ({how})", sig=how)
    if isinstance(res, list) and len(res) == 1:
        raise Viol("batch-size", "a single circuit is reported as a list")
    cd = True if spec["compute_depth"] is None else spec["compute_depth"]
    nt = dp = no = 0
    for r, tp in zip(res_list, batch):
        a, b, c = compare(r, tp, cd, f"specs(level={lvl},{how})")
        nt, dp, no = max(nt, a), max(dp, b), max(no, c)
    exp_level = "gradient" if lvl is None else level
    if out.level != exp_level:
        raise Viol("specs-level", f"level field {out.level!r}, requested {exp_level!r}")
    if out.device_name != "default.qubit" or out.num_device_wires != (len(wires) if spec["dev_wires"] else None):
        raise Viol("specs-device", f"{out.device_name} / {out.num_device_wires}")
    if out.shots.total_shots != spec["shots"]:
        raise Viol("specs-shots", f"{out.shots} vs {spec['shots']}")
    labels = ["qnode", f"level:{'slice' if isinstance(lvl, list) else lvl if not isinstance(lvl, int) else 'int' + str(min(lvl, 1))}", how,
              f"tf{len(spec['transforms'])}", "depth<ops" if dp < no else "depth=ops"]
    if len(batch) > 1:
        labels.append("split")
    return Result(nt >= 3 and dp < no, labels)


# ---- algebra -------------------------------------------------------------------------------

def model_poly(ast):
    """dict: sorted tuple of variable names (with repetition) -> int coefficient."""
    k = ast[0]
    if k == "int":
        return {(): ast[1]} if ast[1] else {}
    if k == "var":
        return {(ast[1],): 1}
    a, b = model_poly(ast[1]), model_poly(ast[2])
    out = Counter()
    if k == "+":
        for m, c in itertools.chain(a.items(), b.items()):
            out[m] += c
    else:
        for (m1, c1), (m2, c2) in itertools.product(a.items(), b.items()):
            out[tuple(sorted(m1 + m2))] += c1 * c2
    return {m: c for m, c in out.items() if c}


def model_eval(p, point):
    return sum(c * int(np.prod([point[v] for v in m])) for m, c in p.items())


def model_vars(p):
    return {v for m in p for v in m}


def real_poly(E, ast):
    k = ast[0]
    if k == "int":
        return ast[1]
    if k == "var":
        return E({(ast[1],): 1})
    a, b = real_poly(E, ast[1]), real_poly(E, ast[2])
    return a + b if k == "+" else a * b


def as_int(x):
    if isinstance(x, (int, np.integer)):
        return int(x)
    return int(x)   # Expression.__int__ raises if variables remain


def check_algebra(qp, spec):
    from pennylane.resource import Expression, Resources, SpecsResources

    point = spec["point"]
    vals = {}
    models = {}
    for name, ast in spec["terms"] + [["__meas", spec["meas"]], ["__wires", spec["wires"]]]:
        e = real_poly(Expression, ast)
        m = model_poly(ast)
        vals[name], models[name] = e, m
        is_const = not model_vars(m)
        if isinstance(e, Expression) == is_const and not (isinstance(e, Expression) and is_const is False):
            if is_const and isinstance(e, Expression):
                raise Viol("constant-collapse", f"{ast} is constant {model_eval(m, point)} but stays an Expression {e!r}")
        full = e.subs(point) if isinstance(e, Expression) else e
        try:
            got = as_int(full)
        except ValueError:
            raise Viol("subs-full", f"{ast}: substituting all variables left {full!r}") from None
        if got != model_eval(m, point):
            raise Viol("evaluation", f"{ast} at {point}: Expression gives {got}, polynomial model {model_eval(m, point)}", sig="eval")
        if isinstance(e, Expression):
            used = {v for mm, c in m.items() for v in mm}
            if not used <= set(e.vars):
                raise Viol("vars", f"{ast}: vars={set(e.vars)} misses {used - set(e.vars)}")
            part = {v: point[v] for v in spec["partial"]}
            pe = e.subs(**part) if spec["kw"] else e.subs(part)
            rest = {v: point[v] for v in VARS if v not in part}
            pv = pe.subs(rest) if isinstance(pe, Expression) else pe
            if as_int(pv) != model_eval(m, point):
                raise Viol("subs-partial", f"{ast}: partial {part} then rest gives {pv}, expected {model_eval(m, point)}")
            e2 = real_poly(Expression, ast)
            if not (e == e2) or hash(e) != hash(e2):
                raise Viol("eq-hash", f"{ast}: two identical constructions differ / hash differently")
        elif got != e or hash(e) != hash(got):
            raise Viol("eq-hash", "int mismatch")
    counts = {n: vals[n] for n, _ in spec["terms"]}
    # counts must stay non-negative only matters for display; Resources accept any Expression
    if spec["nested"] and len(counts) >= 2:
        names = list(counts)
        counts = {names[0]: counts[names[0]], "group": {n: counts[n] for n in names[1:]}}
    allvars = set()
    for n, _ in spec["terms"]:
        if isinstance(vals[n], Expression):
            allvars |= set(vals[n].vars)
    for n in ("__meas", "__wires"):
        if isinstance(vals[n], Expression):
            allvars |= set(vals[n].vars)
    res = SpecsResources(counts=counts, measurement_processes={"expval(PauliZ)": vals["__meas"]}, num_wires=vals["__wires"], circuit_depth=None)
    if set(res.vars) != allvars or res.is_symbolic != bool(allvars):
        raise Viol("resources-vars", f"vars={set(res.vars)} expected {allvars}")
    total_model = sum(model_eval(models[n], point) for n, _ in spec["terms"])
    tq = res.total_quantum_operations
    tqv = as_int(tq.subs({v: point[v] for v in tq.vars}) if isinstance(tq, Expression) else tq)
    if tqv != total_model:
        raise Viol("total-operations", f"total_quantum_operations evaluates to {tqv}, sum of counts is {total_model}")
    sub = res.subs({v: point[v] for v in allvars})
    flat = {}

    def walk(d):
        for k, v in d.items():
            if isinstance(v, dict):
                walk(v)
            else:
                flat[k] = v

    walk(sub.counts)
    for n, _ in spec["terms"]:
        if as_int(flat[n]) != model_eval(models[n], point) or isinstance(flat[n], Expression):
            raise Viol("resources-subs", f"counts[{n}] after subs = {flat[n]!r}, expected {model_eval(models[n], point)}")
    if as_int(sub.num_wires) != model_eval(models["__wires"], point) or as_int(sub.measurement_processes["expval(PauliZ)"]) != model_eval(models["__meas"], point):
        raise Viol("resources-subs", "num_wires / measurement_processes not substituted")
    if sub.is_symbolic or as_int(sub.total_quantum_operations) != total_model:
        raise Viol("resources-subs", f"after full substitution: symbolic={sub.is_symbolic}, total={sub.total_quantum_operations}")
    if type(sub) is not SpecsResources:
        raise Viol("resources-subs", f"subs returned {type(sub).__name__}")
    extra = next((v for v in VARS if v not in allvars), None)
    if extra is not None:
        try:
            res.subs({extra: 1})
        except ValueError:
            pass
        else:
            raise Viol("resources-subs", f"substituting unknown variable {extra} was accepted (documented ValueError)")
    base = Resources(counts=dict(counts))
    if set(base.vars) != {v for n, _ in spec["terms"] if isinstance(vals[n], Expression) for v in vals[n].vars}:
        raise Viol("resources-vars", "Resources.vars differs from the variables of its counts")
    nvars = len(allvars)
    has_prod = any(len(m) >= 2 for n in models for m in models[n])
    return Result(nvars >= 2 and has_prod, ["algebra", f"vars{nvars}", "nested" if spec["nested"] else "flat"])


def check(spec):
    import pennylane as qp

    if spec["mode"] == "tape":
        return check_tape(qp, spec)
    if spec["mode"] == "qnode":
        return check_qnode(qp, spec)
    return check_algebra(qp, spec)


def selftest():
    class O:
        def __init__(self, w):
            self.wires = w
    assert asap_depth([O([0]), O([1]), O([0, 1]), O([2]), O([1])]) == 3
    p = model_poly(["*", ["+", ["var", "a"], ["int", 2]], ["var", "a"]])
    assert p == {("a", "a"): 1, ("a",): 2} and model_eval(p, {"a": 3}) == 15
