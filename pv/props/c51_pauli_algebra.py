"""C51 — Pauli algebra (PauliWord / PauliSentence) agrees with matrix algebra."""
import copy

import numpy as np
from hypothesis import strategies as st

from pv import gen
from pv.cmp import close, maxdiff
from pv.engine import Reject, Result, Viol
from pv.ref import pauli as P

ID = "C51"
TECHNIQUE = "hypothesis-generated Pauli sentences (exact quarter-integer complex coefficients) vs dense kron reference algebra"
RULE = (
    "Two Pauli sentences a, b (0-6 terms each, words on 1-4 labelled wires (int/str/mixed) incl. explicit 'I' letters, "
    "the empty word, zero coefficients and repeated words; built via dict / '+' chain / '+=') plus a scalar k, a wire "
    "order (permutation of the wires plus 0-2 extra wires), a sparse buffer size forcing 1..3 structures per batch, a "
    "state vector (optionally batched), a relabelling and a prune tolerance. Oracle (pv.ref.pauli, numpy kron, first "
    "wire most significant): to_mat dense == csr(any buffer) == matrix of operation() == reference; word.to_mat(coeff); "
    "@, +, -, scalar *, /, commutator (sentence/word/operator/qp.commutator), trace, dot, map_wires, prune, +=, "
    "word eq/hash with identities; pauli_sentence(op) for ops rebuilt from primitives (s_prod/prod/sum, dunder, "
    "Hamiltonian, and the operator product a_op @ b_op); pauli_decompose(M) dense and scipy-sparse input with all flag "
    "combinations round-trips M and matches tr(P M)/2^n coefficients, rejects non-Hermitian M when check_hermitian; "
    "string/binary/matrix word conversions in utils. Tolerance 1e-10 (all data exactly representable). "
    "Non-trivial: a has >= 2 distinct words and b is non-empty."
)
ASSUMPTIONS = [
    "Coefficients are multiples of 1/4 so that accumulated coefficients are exact and never fall near the "
    "documented pruning thresholds (1e-8 in pauli_decompose, 1e-16 in the sparse builder).",
    "Wire orders always contain every wire of the sentence (a missing wire is a documented ValueError).",
    "Only numpy scalars/arrays are used as coefficients (autodiff interfaces are out of scope).",
]
BUDGET = {"quick": {"examples": 800}, "thorough": {"examples": 60000, "shards": 16}}
SHRINK_LISTS = ("a", "b", "w", "extra")
TOL = 1e-10

_q = st.sampled_from([0.0, 0.0, 1.0, -1.0, 0.5, -0.5, 0.25, -0.25, 2.0, -1.5, 0.75, 1.25])
_coef = st.one_of(
    st.tuples(_q, st.just(0.0)),
    st.tuples(_q, _q),
    st.tuples(st.just(0.0), _q),
    st.sampled_from([(1.0, 0.0), (1.0, 0.0), (0.0, 0.0), (-1.0, 0.0)]),
).map(list)


@st.composite
def _word(draw, n):
    k = draw(st.integers(0, n))
    idx = draw(st.permutations(list(range(n))))[:k]
    return [[i, draw(st.sampled_from(["X", "Y", "Z", "X", "Y", "Z", "I"]))] for i in idx]


@st.composite
def _sentence(draw, n, max_terms):
    terms = []
    for _ in range(draw(st.integers(0, max_terms))):
        if terms and draw(st.integers(0, 5)) == 0:
            w = list(draw(st.sampled_from(terms))["w"])  # repeated word
            w = draw(st.permutations(w)) if w else w
            w = [list(x) for x in w]
        else:
            w = draw(_word(n))
        terms.append({"c": draw(_coef), "w": w})
    return terms


@st.composite
def _case(draw, tier):
    nmax = 4 if tier == "quick" else 5
    n = draw(st.integers(1, nmax))
    pool = draw(gen.wire_labels(6))
    labels, rest = pool[:n], pool[n:]
    extra = rest[: draw(st.sampled_from([0, 0, 0, 1, 1, 2]))] if n < nmax else rest[: draw(st.sampled_from([0, 0, 1]))]
    perm = list(draw(st.permutations(list(range(n + len(extra))))))
    max_terms = 6 if tier == "quick" else 9
    return {
        "labels": labels,
        "extra": extra,
        "perm": perm,
        "a": draw(_sentence(n, max_terms)),
        "b": draw(_sentence(n, 4)),
        "build": draw(st.sampled_from(["dict", "sum", "iadd"])),
        "k": draw(_coef),
        "bufmats": draw(st.sampled_from([None, 0, 1, 1, 2, 3])),
        "vec": [draw(st.integers(1, 6)), draw(st.integers(0, 6)), draw(st.integers(0, 4)), draw(st.sampled_from([0, 0, 1, 3]))],
        "ptol": draw(st.sampled_from([1e-8, 1e-8, 0.3, 0.6, 1.1])),
        "opstyle": draw(st.sampled_from(["functional", "dunder", "hamiltonian", "lincomb"])),
        "dec": {
            "hide": draw(st.booleans()),
            "pauli": draw(st.booleans()),
            "herm": draw(st.sampled_from([True, True, False])),
            "check": draw(st.booleans()),
            "sparse": draw(st.sampled_from([None, None, "csr", "coo", "csc"])),
            "wo": draw(st.booleans()),
        },
    }


def strategy(tier):
    return _case(tier)


def enumerate_cases(tier):
    """Degenerate corners, always run."""
    base = {"labels": [0], "extra": [], "perm": [0], "a": [], "b": [], "build": "dict", "k": [0.5, 0.0],
            "bufmats": None, "vec": [1, 0, 0, 0], "ptol": 1e-8, "opstyle": "functional",
            "dec": {"hide": False, "pauli": True, "herm": True, "check": True, "sparse": None, "wo": False}}
    out = []
    for a in ([], [{"c": [1.0, 0.0], "w": []}], [{"c": [0.0, 0.0], "w": [[0, "X"]]}], [{"c": [0.5, 0.5], "w": [[0, "I"]]}]):
        for sparse in (None, "csr"):
            for pauli in (True, False):
                s = copy.deepcopy(base)
                s["a"] = a
                s["dec"]["sparse"] = sparse
                s["dec"]["pauli"] = pauli
                out.append(s)
    return out


# ---------------------------------------------------------------- builders
def _c(pair):
    re, im = pair
    return complex(re, im) if im != 0 else float(re)


def _ref_terms(terms, labels):
    return [(complex(*t["c"]), {labels[i]: ch for i, ch in t["w"]}) for t in terms]


def _pw(t, labels):
    from pennylane.pauli import PauliWord

    return PauliWord({labels[i]: ch for i, ch in t["w"]})


def _build(terms, labels, mode):
    from pennylane.pauli import PauliSentence

    words = [_pw(t, labels) for t in terms]
    distinct = len(set(P.canon_word({labels[i]: ch for i, ch in t["w"]}) for t in terms)) == len(terms)
    if mode == "dict" and distinct:
        return PauliSentence({w: _c(t["c"]) for w, t in zip(words, terms)})
    if mode == "iadd":
        ps = PauliSentence()
        for w, t in zip(words, terms):
            ps += _c(t["c"]) * w
        return ps
    ps = PauliSentence()
    for w, t in zip(words, terms):
        ps = ps + PauliSentence({w: _c(t["c"])})
    return ps


def _prim(ch, w):
    import pennylane as qp

    return {"I": qp.Identity, "X": qp.PauliX, "Y": qp.PauliY, "Z": qp.PauliZ}[ch](w)


def _op(terms, labels, style, order):
    """Operator built from primitives only (its pauli_rep is computed by PennyLane's arithmetic classes)."""
    import pennylane as qp

    if not terms:
        return None
    facs = []
    for t in terms:
        f = [_prim(ch, labels[i]) for i, ch in t["w"]] or [qp.Identity(order[0])]
        facs.append(f)
    coeffs = [_c(t["c"]) for t in terms]
    if style in ("hamiltonian", "lincomb"):
        obs = [f[0] if len(f) == 1 else qp.prod(*f) for f in facs]
        if style == "hamiltonian":
            return qp.Hamiltonian(coeffs, obs)
        return qp.ops.LinearCombination(coeffs, obs)
    summands = []
    for c, f in zip(coeffs, facs):
        if style == "dunder":
            w = f[0]
            for g in f[1:]:
                w = w @ g
            summands.append(c * w)
        else:
            w = f[0] if len(f) == 1 else qp.prod(*f)
            summands.append(qp.s_prod(c, w))
    if len(summands) == 1:
        return summands[0]
    if style == "dunder":
        out = summands[0]
        for s in summands[1:]:
            out = out + s
        return out
    return qp.sum(*summands)


def _eq(clause, got, want, what="", sig=None, features=None):
    if hasattr(got, "toarray"):
        got = got.toarray()
    got = np.asarray(got)
    want = np.asarray(want)
    if got.shape != want.shape or not close(got, want, TOL):
        raise Viol(clause, f"{what}: maxdiff={maxdiff(got, want)}", sig=sig or clause, features=features or {})


def _vec(spec, dim):
    p, q, r, batch = spec
    i = np.arange(dim)
    v = ((i * p + q) % 7 - 3) + 1j * ((i * r) % 5 - 2)
    if batch == 0:
        return v.astype(complex)
    return np.stack([np.roll(v, j) * (j + 1) for j in range(batch)]).astype(complex)


# ---------------------------------------------------------------- the check
def check(spec):
    import pennylane as qp
    import scipy.sparse as sps
    from pennylane.pauli import PauliSentence, PauliWord

    labels = spec["labels"]
    allw = labels + spec["extra"]
    order = [allw[i] for i in spec["perm"]]
    n = len(order)
    dim = 2**n
    ta, tb = _ref_terms(spec["a"], labels), _ref_terms(spec["b"], labels)
    MA, MB = P.sentence_matrix(ta, order), P.sentence_matrix(tb, order)
    A, B = _build(spec["a"], labels, spec["build"]), _build(spec["b"], labels, "sum")
    k = _c(spec["k"])
    kc = complex(*spec["k"])
    Id = np.eye(dim)
    ca = P.collect(ta)

    # --- representation: keys/coefficients, wires
    if len(A) != len(ca):
        raise Viol("keys", f"{len(A)} words stored, {len(ca)} distinct words given")
    for pw, c in A.items():
        kk = P.canon_word(dict(pw))
        if kk not in ca or abs(ca[kk] - c) > TOL:
            raise Viol("coefficients", f"{pw}: {c} vs {ca.get(kk)}")
    want_wires = {w for _, word in ta for w, ch in word.items() if ch != "I"}
    if set(A.wires) != want_wires or len(A.wires) != len(want_wires):
        raise Viol("wires", f"{A.wires} vs {want_wires}")

    # --- matrices: dense, sparse (buffer), default order, operation
    _eq("to_mat-dense", A.to_mat(order), MA, "sentence dense")
    size = 24 * dim
    bufs = [None]
    if spec["bufmats"] is not None:
        bufs.append(1 if spec["bufmats"] == 0 else size * spec["bufmats"])
    for buf in bufs:
        m = A.to_mat(order, format="csr", buffer_size=buf)
        if not sps.issparse(m) or m.format != "csr":
            raise Viol("to_mat-sparse", f"format csr requested, got {type(m)}")
        _eq("to_mat-sparse", m, MA, f"sentence csr buffer={buf}", features={"buffer": buf})
    own = list(A.wires)
    _eq("to_mat-default-order", A.to_mat(), P.sentence_matrix(ta, own), "wire_order=None")
    _eq("to_mat-default-order", A.to_mat(format="csr"), P.sentence_matrix(ta, own), "wire_order=None csr")
    try:
        opA = A.operation(wire_order=order) if (spec["vec"][0] % 2 or not own) else A.operation()
    except Exception as e:  # noqa: BLE001
        raise Viol("operation", f"operation() raised {type(e).__name__}: {e}") from e
    _eq("operation", qp.matrix(opA, wire_order=order), MA, "matrix of operation()")
    rep = opA.pauli_rep
    if rep is None:
        raise Viol("operation", "operation() has no pauli_rep")
    _eq("operation", rep.to_mat(order), MA, "pauli_rep of operation()")

    # --- words
    for (c, word), t in zip(ta, spec["a"]):
        pw = _pw(t, labels)
        W = P.word_matrix(word, order)
        _eq("word-to_mat", pw.to_mat(order), W, "word dense")
        _eq("word-to_mat", pw.to_mat(order, format="csr"), W, "word csr")
        _eq("word-to_mat", pw.to_mat(order, coeff=_c(t["c"])), c * W, "word dense coeff")
        _eq("word-to_mat", pw.to_mat(order, format="csr", coeff=_c(t["c"])), c * W, "word csr coeff")
        ow = list(pw.wires)
        _eq("word-to_mat", pw.to_mat(), P.word_matrix(word, ow), "word default order")
        _eq("word-operation", qp.matrix(pw.operation(wire_order=order), wire_order=order), W, "word operation")
        stripped = PauliWord({w: ch for w, ch in word.items() if ch != "I"})
        if pw != stripped or hash(pw) != hash(stripped):
            raise Viol("word-eq-hash", f"{dict(word)} vs stripped")
        _eq("word-arith", (pw * k).to_mat(order), kc * W, "w*k")
        _eq("word-arith", (k * pw).to_mat(order), kc * W, "k*w")
        _eq("word-arith", (pw + k).to_mat(order), W + kc * Id, "w+k")
        _eq("word-arith", (k - pw).to_mat(order), kc * Id - W, "k-w")
        _eq("word-arith", (pw @ A).to_mat(order), W @ MA, "w@A")
        _eq("word-arith", (A @ pw).to_mat(order), MA @ W, "A@w")
        _eq("word-arith", (A + pw).to_mat(order), MA + W, "A+w")
        _eq("word-arith", (pw - A).to_mat(order), W - MA, "w-A")
        _eq("word-commutator", pw.commutator(A).to_mat(order), W @ MA - MA @ W, "w.commutator(A)")
        _eq("word-commutator", A.commutator(pw).to_mat(order), MA @ W - W @ MA, "A.commutator(w)")
        for (_, word2), t2 in zip(tb, spec["b"]):
            pw2 = _pw(t2, labels)
            W2 = P.word_matrix(word2, order)
            _eq("word-matmul", (pw @ pw2).to_mat(order), W @ W2, "w@w2")
            _eq("word-commutator", pw.commutator(pw2).to_mat(order), W @ W2 - W2 @ W, "w.commutator(w2)")
            _eq("word-arith", (pw + pw2).to_mat(order), W + W2, "w+w2")
            _eq("word-arith", (pw - pw2).to_mat(order), W - W2, "w-w2")
            if pw.commutes_with(pw2) != P.commutes(word, word2):
                raise Viol("commutes_with", f"{pw} {pw2}")

    # --- sentence algebra
    _eq("matmul", (A @ B).to_mat(order), MA @ MB, "A@B")
    _eq("matmul", (B @ A).to_mat(order), MB @ MA, "B@A")
    _eq("add", (A + B).to_mat(order), MA + MB, "A+B")
    _eq("add", (B + A).to_mat(order), MA + MB, "B+A")
    _eq("sub", (A - B).to_mat(order), MA - MB, "A-B")
    _eq("add-scalar", (A + k).to_mat(order), MA + kc * Id, "A+k")
    _eq("add-scalar", (k + A).to_mat(order), MA + kc * Id, "k+A")
    _eq("add-scalar", (k - A).to_mat(order), kc * Id - MA, "k-A")
    _eq("add-scalar", (A - k).to_mat(order), MA - kc * Id, "A-k")
    _eq("scalar-mul", (k * A).to_mat(order), kc * MA, "k*A")
    _eq("scalar-mul", (A * k).to_mat(order), kc * MA, "A*k")
    _eq("scalar-mul", (np.array(k) * A).to_mat(order), kc * MA, "array(k)*A")
    if kc != 0:
        _eq("scalar-div", (A / k).to_mat(order), MA / kc, "A/k")
    comm = MA @ MB - MB @ MA
    _eq("commutator", A.commutator(B).to_mat(order), comm, "A.commutator(B)")
    _eq("commutator", qp.commutator(A, B, pauli=True).to_mat(order), comm, "qp.commutator(pauli=True)")
    if spec["b"]:
        _eq("commutator", A.commutator(B.operation(wire_order=order)).to_mat(order), comm, "A.commutator(op)")
    tr = A.trace()
    if abs(complex(tr) - np.trace(MA) / dim) > TOL:
        raise Viol("trace", f"{tr} vs {np.trace(MA) / dim}")
    # operands untouched by the algebra above
    _eq("purity", A.to_mat(order), MA, "A mutated by arithmetic")
    _eq("purity", B.to_mat(order), MB, "B mutated by arithmetic")

    # --- dot
    v = _vec(spec["vec"], dim)
    got = A.dot(v, wire_order=order) if spec["a"] else None
    if got is not None:
        want = (MA @ v) if v.ndim == 1 else (v @ MA.T)
        if np.size(got) != want.size:
            raise Viol("dot", f"result has {np.size(got)} entries, expected {want.size}")
        # a 1-D input comes back as (1, dim); callers reshape, so only the values are compared
        _eq("dot", np.reshape(got, want.shape), want, "A.dot(v)")

    # --- iadd
    A2 = copy.copy(A)
    A2 += B
    _eq("iadd", A2.to_mat(order), MA + MB, "A+=B")
    _eq("iadd", A.to_mat(order), MA, "copy aliasing: A changed by (copy A)+=B")
    A3 = copy.deepcopy(A)
    A3 += k
    _eq("iadd", A3.to_mat(order), MA + kc * Id, "A+=k")

    # --- map_wires (injective relabelling to fresh labels / swap)
    fresh = [f"m{j}" for j in range(len(labels))]
    wm = dict(zip(labels, fresh)) if spec["vec"][1] % 2 else dict(zip(labels, labels[1:] + labels[:1]))
    order_m = [wm.get(w, w) for w in order]
    _eq("map_wires", A.map_wires(wm).to_mat(order_m), MA, "map_wires")
    _eq("map_wires", A.to_mat(order), MA, "map_wires mutated the source")

    # --- prune
    A4 = copy.copy(A)
    A4.prune(tol=spec["ptol"])
    kept = {kk: c for kk, c in ca.items() if abs(c) > spec["ptol"]}
    if len(A4) != len(kept):
        raise Viol("prune", f"tol={spec['ptol']}: kept {len(A4)} words, expected {len(kept)}")
    Mk = sum((c * P.word_matrix(dict(kk), order) for kk, c in kept.items()), np.zeros((dim, dim), dtype=complex))
    _eq("prune", A4.to_mat(order), Mk, "prune")

    # --- pauli_sentence of rebuilt operators
    opa = _op(spec["a"], labels, spec["opstyle"], order)
    opb = _op(spec["b"], labels, "functional", order)
    if opa is not None:
        psa = qp.pauli.pauli_sentence(opa)
        _eq("pauli_sentence", psa.to_mat(order), MA, f"pauli_sentence({spec['opstyle']}) vs reference", sig="ps-" + spec["opstyle"])
        _eq("pauli_sentence", qp.matrix(opa, wire_order=order), MA, "qp.matrix(op) vs reference", sig="opmat-" + spec["opstyle"])
        if opb is not None:
            pr = qp.prod(opa, opb)
            _eq("pauli_sentence", qp.pauli.pauli_sentence(pr).to_mat(order), MA @ MB, "pauli_sentence(prod(a,b))", sig="ps-prod")
            ad = qp.adjoint(opa)
            if ad.pauli_rep is not None:
                _eq("pauli_sentence", qp.pauli.pauli_sentence(ad).to_mat(order), MA.conj().T, "pauli_sentence(adjoint)", sig="ps-adjoint")

    # --- pauli_decompose
    d = spec["dec"]
    dorder = [w for w in order if w in labels]  # keep the dense decomposition small
    nd = len(dorder)
    terms_d = [(c.real, w) for c, w in ta] if d["herm"] else ta
    M = P.sentence_matrix(terms_d, dorder)
    hermitian = np.allclose(M, M.conj().T)
    arg = M if d["sparse"] is None else getattr(sps, d["sparse"] + "_matrix")(M)
    kwargs = {"hide_identity": d["hide"], "pauli": d["pauli"], "check_hermitian": d["check"]}
    worder = dorder if d["wo"] else list(range(nd))
    if d["wo"]:
        kwargs["wire_order"] = dorder
    feats = {"zero_matrix": bool(not np.any(M)), "sparse": d["sparse"], "pauli": d["pauli"]}
    if d["check"] and not hermitian:
        try:
            qp.pauli_decompose(arg, **kwargs)
        except ValueError:
            pass
        else:
            raise Viol("decompose-hermitian-check", "non-Hermitian matrix accepted with check_hermitian=True")
    else:
        try:
            res = qp.pauli_decompose(arg, **kwargs)
        except Exception as e:  # noqa: BLE001
            raise Viol("decompose-raises", f"{type(e).__name__}: {e}", sig=f"decompose-raises-{'zero' if feats['zero_matrix'] else 'nonzero'}-{'sparse' if d['sparse'] else 'dense'}", features=feats) from e
        want = P.decompose(M, worder)
        if d["pauli"]:
            if not isinstance(res, PauliSentence):
                raise Viol("decompose-type", f"{type(res)}")
            _eq("decompose-roundtrip", res.to_mat(worder), M, "pauli_decompose(pauli=True)", features=feats)
            for pw, c in res.items():
                if abs(complex(c) - want[P.canon_word(dict(pw))]) > TOL:
                    raise Viol("decompose-coeff", f"{pw}: {c} vs {want[P.canon_word(dict(pw))]}")
            if d["check"] and any(abs(np.imag(c)) > 0 for c in res.values()):
                raise Viol("decompose-coeff", "complex coefficient for Hermitian input with check_hermitian=True")
        else:
            try:
                # a linear combination without terms denotes the zero operator
                got = qp.matrix(res, wire_order=worder) if len(res.ops) else np.zeros_like(M)
            except Exception as e:  # noqa: BLE001
                raise Viol("decompose-roundtrip", f"matrix of result raised {type(e).__name__}: {e}", sig="decompose-result-matrix-raises", features=feats) from e
            _eq("decompose-roundtrip", got, M, "pauli_decompose(pauli=False)", features=feats)
            if d["hide"]:
                for o in res.ops:
                    names = [f.name for f in (o.operands if hasattr(o, "operands") else [o])]
                    if "Identity" in names and set(names) != {"Identity"}:
                        raise Viol("decompose-hide-identity", f"{o}")
            else:
                for o in res.ops:
                    if set(o.wires) != set(worder):
                        raise Viol("decompose-show-identity", f"{o} does not list all wires {worder}")

    # --- utils word conversions
    wire_map = {w: i for i, w in enumerate(order)}
    for (_, word), t in zip(ta[:3], spec["a"][:3]):
        letters = "".join(word.get(w, "I") for w in order)
        W = P.word_matrix(word, order)
        f = [_prim(ch, labels[i]) for i, ch in t["w"] if ch != "I"]
        if not f:
            continue
        wop = f[0] if len(f) == 1 else qp.prod(*f)
        s = qp.pauli.pauli_word_to_string(wop, wire_map=wire_map)
        if s != letters:
            raise Viol("utils-string", f"{wop}: {s!r} vs {letters!r}")
        back = qp.pauli.string_to_pauli_word(letters, wire_map=wire_map)
        _eq("utils-string", qp.matrix(back, wire_order=order), W, "string_to_pauli_word")
        bv = qp.pauli.pauli_to_binary(wop, n_qubits=n, wire_map=wire_map)
        if list(map(int, bv)) != P.binary_vector(word, order):
            raise Viol("utils-binary", f"{wop}: {bv} vs {P.binary_vector(word, order)}")
        back = qp.pauli.binary_to_pauli(P.binary_vector(word, order), wire_map=wire_map)
        _eq("utils-binary", qp.matrix(back, wire_order=order), W, "binary_to_pauli")
        _eq("utils-matrix", qp.pauli.pauli_word_to_matrix(wop, wire_map=wire_map), W, "pauli_word_to_matrix")

    # --- evidence
    nstruct = len({tuple(0 if dict(kk).get(w, "I") in "IZ" else 1 for w in order) for kk in ca})
    labs = [f"n={n}", f"build={spec['build']}", f"terms={min(len(ca), 5)}", f"structures={min(nstruct, 4)}",
            f"dec={'sparse' if d['sparse'] else 'dense'}"]
    if spec["bufmats"] is not None and nstruct > max(1, spec["bufmats"]):
        labs.append("buffer-split")
    if len(ca) < len(ta):
        labs.append("repeated-word")
    if any(not kk for kk in ca):
        labs.append("identity-word")
    if any(c == 0 for c in ca.values()):
        labs.append("zero-coeff")
    if spec["extra"]:
        labs.append("extra-wires")
    if np.abs(comm).max() > 0:
        labs.append("non-commuting")
    if not hermitian:
        labs.append("non-hermitian-decompose")
    if any(isinstance(w, str) for w in order) and any(isinstance(w, int) for w in order):
        labs.append("mixed-labels")
    return Result(nontrivial=len(ca) >= 2 and bool(spec["b"]), labels=labs)


def selftest():
    P.selftest()
    v = _vec([1, 2, 3, 2], 4)
    assert v.shape == (2, 4)
