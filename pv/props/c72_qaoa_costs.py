"""C72 — QAOA cost Hamiltonians encode their objectives; mixers are the documented operators."""
import itertools
import math

import numpy as np
from hypothesis import strategies as st

from pv.engine import Reject, Result, Viol
from pv.ref import graphs as G

ID = "C72"
TECHNIQUE = ("hypothesis-generated labelled graphs (networkx and rustworkx) with all 2^n bitstrings enumerated per "
             "graph vs brute-force combinatorial objectives and semantic mixer matrices")
RULE = (
    "Specs: undirected simple graphs on 1-7 nodes (empty / sparse / dense / complete, node labels contiguous, "
    "non-contiguous ints, strings or mixed, random edge insertion order and orientation) built as nx.Graph or "
    "rx.PyGraph (loss_hamiltonian, one wire per edge: a random subset of <= 14 edges); weighted digraphs on 2-4 "
    "nodes (<= 9 arcs) as nx.DiGraph or rx.PyDiGraph. For every graph ALL 2^n bitstrings are evaluated. Oracle: "
    "the diagonal of the cost Hamiltonian (own evaluation of pauli_rep; "
    "non-I/Z words are violations) equals the combinatorial objective computed by brute force: maxcut = -cut(x); "
    "constrained MIS/clique = n-2|S|, MVC = 2|S|-n; unconstrained: minimisers are exactly the brute-force optimal "
    "feasible sets AND the docstring formula evaluated on Z=+-1; edge_driver = #penalised edges + const (const fixed "
    "where documented); bit_driver; max_weight_cycle loss / net-flow / out-flow in terms of selected arcs, mapping a "
    "bijection wires<->arcs. Mixers: dense matrix equals the semantic transition matrix (bit flip iff all "
    "neighbours = b; XY exchange per edge; cycle mixer sigma+ sigma- sigma- + h.c. per triangle; sum X). "
    "Non-trivial: >= 3 nodes and >= 2 edges, not complete-or-empty (so structure matters)."
)
ASSUMPTIONS = [
    "Simple graphs only (no self-loops, no parallel edges); rustworkx graphs without removed nodes.",
    "rx.PyDiGraph inputs to the cycle functions use node payload == node index, as in every docstring example "
    "(the code looks payloads up with nodes().index(index)).",
    "edge_driver reward lists are sets of colourings in any order, without repeated entries (with repeats the "
    "length tests in edge_driver misfire; treated as outside the documented domain).",
    "Edge weights for max_weight_cycle are positive (documented assumption c_ij > 0).",
    "Constant energy offsets of edge_driver are asserted only for the 3-element reward sets, where the docstring "
    "fixes them (-1/4 vs 3/4 per edge); otherwise only the documented unit gap reward/penalty is asserted.",
]
BUDGET = {"quick": {"examples": 500}, "thorough": {"examples": 16000, "shards": 16}}
SHRINK_LISTS = ("edges",)
TOL = 1e-9
LOSS_MAX_EDGES = 14      # undirected loss_hamiltonian: one wire per edge -> at most 2^14 enumerated bitstrings
MAX_WIRES = 16           # hard ceiling of a register whose 2^n bitstrings are enumerated (defensive, see check)
MAX_DENSE_WIRES = 12     # hard ceiling of a register on which a dense 2^n x 2^n mixer matrix is built

UNDIRECTED = ["maxcut", "mis", "mvc", "clique", "edge_driver", "bit_flip_mixer", "xy_mixer", "bit_driver", "x_mixer",
              "loss"]
DIRECTED = ["mwc", "mwc", "loss", "net_flow", "out_flow", "cycle_mixer"]
REWARDS = [[], ["00"], ["11"], ["01", "10"], ["00", "11"], ["00", "01", "10"], ["11", "10", "01"],
           ["00", "01", "10", "11"]]


# ------------------------------------------------------------------------------------------------ generators
@st.composite
def _labels(draw, n):
    kind = draw(st.sampled_from(["range", "ints", "str", "mixed"]))
    if kind == "range":
        return list(range(n))
    if kind == "ints":
        return draw(st.lists(st.integers(0, 40), min_size=n, max_size=n, unique=True))
    if kind == "str":
        return draw(st.permutations(list("abcdefgh"))).copy()[:n]
    pool = list("abcd") + [0, 1, 2, 3, 7, 11]
    return list(draw(st.permutations(pool)))[:n]


@st.composite
def _undirected(draw, tier):
    nmax = 7 if tier == "quick" else 8
    fn = draw(st.sampled_from(UNDIRECTED))
    n = draw(st.integers(1, nmax if fn != "bit_flip_mixer" else 7))
    pairs = list(itertools.combinations(range(n), 2))
    dens = draw(st.sampled_from(["empty", "sparse", "half", "dense", "complete"]))
    if dens == "empty":
        chosen = []
    elif dens == "complete":
        chosen = pairs
    else:
        p = {"sparse": 0.25, "half": 0.5, "dense": 0.8}[dens]
        chosen = [e for e in pairs if draw(st.floats(0, 1)) < p]
    chosen = list(draw(st.permutations(chosen))) if chosen else []
    if fn == "loss":
        # loss_hamiltonian acts on one wire PER EDGE, so the enumeration is over 2^m (not 2^n) bitstrings: a dense graph on
        # 8 nodes has 28 edges -> bits(28) is a 60 GB array (this killed a thorough-tier worker). Keep a random subset of the
        # edges (the permutation above makes the kept subset and its insertion order random), so the size is bounded by
        # construction: 2^14 states.
        chosen = chosen[:LOSS_MAX_EDGES]
    edges = [[j, i] if draw(st.booleans()) else [i, j] for i, j in chosen]
    spec = {"fn": fn, "lib": draw(st.sampled_from(["nx", "rx"])), "directed": False,
            "labels": draw(_labels(n)), "edges": edges}
    if fn in ("mis", "mvc", "clique"):
        spec["constrained"] = draw(st.booleans())
    if fn in ("bit_flip_mixer", "bit_driver"):
        spec["b"] = draw(st.integers(0, 1))
    if fn == "edge_driver":
        rew = list(draw(st.permutations(draw(st.sampled_from(REWARDS)))))
        spec["reward"] = rew
    if fn == "loss":
        spec["weights"] = [draw(_weight) for _ in edges]
        if spec["lib"] == "rx":
            spec["labels"] = list(range(n))
    return spec


_weight = st.one_of(st.sampled_from([1.0, 0.5, 2.0]), st.integers(1, 4000).map(lambda k: k / 1000.0))


@st.composite
def _directed(draw, tier):
    fn = draw(st.sampled_from(DIRECTED))
    n = draw(st.integers(2, 4))
    mmax = 9 if tier == "quick" else 11
    arcs = [(i, j) for i in range(n) for j in range(n) if i != j]
    arcs = list(draw(st.permutations(arcs)))
    m = draw(st.integers(0 if fn != "mwc" else 1, min(mmax, len(arcs))))
    if draw(st.integers(0, 3)) == 0:
        m = min(mmax, len(arcs))
    arcs = arcs[:m]
    lib = draw(st.sampled_from(["nx", "rx"]))
    spec = {"fn": fn, "lib": lib, "directed": True,
            "labels": list(range(n)) if lib == "rx" else draw(_labels(n)),
            "edges": [list(a) for a in arcs], "weights": [draw(_weight) for _ in arcs]}
    if fn == "mwc":
        spec["constrained"] = draw(st.booleans())
    return spec


def strategy(tier):
    return st.one_of(_undirected(tier), _undirected(tier), _directed(tier))


def enumerate_cases(tier):
    """All labelled simple graphs on <= 3 (quick) / 4 (thorough) nodes x every function variant x both libraries."""
    nmax = 3 if tier == "quick" else 4
    for n in range(1, nmax + 1):
        pairs = list(itertools.combinations(range(n), 2))
        for mask in range(2 ** len(pairs)):
            edges = [list(p) for k, p in enumerate(pairs) if mask >> k & 1]
            for lib in ("nx", "rx"):
                base = {"lib": lib, "directed": False, "labels": [5, "a", 2, 9][:n], "edges": edges}
                yield dict(base, fn="maxcut")
                yield dict(base, fn="xy_mixer")
                for fn in ("mis", "mvc", "clique"):
                    for c in (True, False):
                        yield dict(base, fn=fn, constrained=c)
                for b in (0, 1):
                    yield dict(base, fn="bit_flip_mixer", b=b)
                for r in REWARDS:
                    yield dict(base, fn="edge_driver", reward=r)
    # complete digraphs on 2 and 3 nodes with documented-style weights
    for n in (2, 3):
        arcs = [[i, j] for i in range(n) for j in range(n) if i != j]
        w = [(k + 1) * 0.5 for k in range(len(arcs))]
        for lib in ("nx", "rx"):
            base = {"lib": lib, "directed": True, "labels": list(range(n)), "edges": arcs, "weights": w}
            for fn in ("loss", "net_flow", "out_flow", "cycle_mixer"):
                yield dict(base, fn=fn)
            for c in (True, False):
                yield dict(base, fn="mwc", constrained=c)


# ------------------------------------------------------------------------------------------------ builders
def build(spec):
    import networkx as nx
    import rustworkx as rx

    labels, edges = spec["labels"], spec["edges"]
    w = spec.get("weights")
    if spec["lib"] == "nx":
        g = nx.DiGraph() if spec["directed"] else nx.Graph()
        g.add_nodes_from(labels)
        for k, (i, j) in enumerate(edges):
            if w is None:
                g.add_edge(labels[i], labels[j])
            else:
                g.add_edge(labels[i], labels[j], weight=w[k])
        return g
    g = rx.PyDiGraph() if spec["directed"] else rx.PyGraph()
    g.add_nodes_from(labels)
    g.add_edges_from([(i, j, "" if w is None else {"weight": w[k]}) for k, (i, j) in enumerate(edges)])
    return g


def _sent(H, what):
    ps = H.pauli_rep
    if ps is None:
        raise Viol("no-pauli-rep", f"{what} has no pauli_rep", sig=what)
    return G.sentence(ps)


def _diag(H, order, what, feats):
    sent = _sent(H, what)
    d, bad = G.diagonal(sent, order)
    if bad:
        raise Viol("cost-not-diagonal", f"{what}: non I/Z words or foreign wires {bad[:3]}", sig=what, features=feats)
    if np.abs(d.imag).max(initial=0) > TOL:
        raise Viol("cost-not-hermitian", f"{what}: complex diagonal", sig=what, features=feats)
    return d.real


def _expect(d, ref, clause, what, feats, order):
    ref = np.asarray(ref, dtype=float)
    scale = max(1.0, np.abs(ref).max(initial=0))
    err = np.abs(d - ref)
    if err.max(initial=0) > TOL * scale:
        k = int(np.argmax(err))
        n = len(order)
        raise Viol(clause, f"{what}: bitstring {format(k, f'0{n}b')} over wires {order}: H={d[k]!r} "
                           f"expected {ref[k]!r}", sig=what, features=feats)


def _argmin_set(d):
    m = d.min()
    return set(np.nonzero(d <= m + 1e-9)[0].tolist())


def _mixer(H, ref, order, what, feats):
    M = G.dense(_sent(H, what + ".mixer"), order)
    if M.shape != ref.shape or np.abs(M - ref).max(initial=0) > TOL:
        idx = np.unravel_index(int(np.argmax(np.abs(M - ref))), M.shape)
        raise Viol("mixer", f"{what}: <{idx[0]:b}|H_M|{idx[1]:b}> = {M[idx]!r}, expected {ref[idx]!r} "
                            f"(wires {order})", sig=what + ".mixer", features=feats)


def _grouping(H, what, feats):
    gi = getattr(H, "grouping_indices", None)
    if gi is None:
        return
    flat = sorted(i for grp in gi for i in grp)
    if flat != list(range(len(H.ops))):
        raise Viol("grouping-indices", f"{what}: grouping_indices {gi} do not partition {len(H.ops)} terms",
                   sig=what, features=feats)


# ------------------------------------------------------------------------------------------------ check
def check(spec):
    from pennylane import qaoa

    fn, labels, edges = spec["fn"], spec["labels"], [tuple(e) for e in spec["edges"]]
    n = len(labels)
    feats = {"fn": fn, "lib": spec["lib"], "constrained": spec.get("constrained")}
    # size guard for hand-written / old replay specs only: the generators above never exceed these by construction
    # (undirected: n <= 8 wires, loss: m <= LOSS_MAX_EDGES wires, directed: m <= 11 wires, dense matrices <= 2^11 x 2^11).
    wires = len(edges) if (spec["directed"] or fn == "loss") else n
    diagonal_only = not spec["directed"] and fn in ("loss", "bit_driver", "edge_driver")     # no dense 2^n x 2^n matrix
    if wires > (MAX_WIRES if diagonal_only else MAX_DENSE_WIRES):
        raise Reject(f"register of {wires} wires is beyond the enumeration size of this harness")
    if spec["directed"]:
        return _check_directed(spec, qaoa, feats)
    if fn == "bit_driver":
        H = qaoa.bit_driver(labels, spec["b"])
        B = G.bits(n)
        _expect(_diag(H, labels, fn, feats), (-1) ** (spec["b"] + 1) * (n - 2 * B.sum(1)), "bit-driver", fn, feats, labels)
        return Result(n >= 2, [fn])
    if fn == "x_mixer":
        _mixer(qaoa.x_mixer(labels), G.x_matrix(n), labels, fn, feats)
        return Result(n >= 2, [fn])

    g = build(spec)
    B = G.bits(n)
    size = B.sum(1)
    m = len(edges)
    dens = "empty" if m == 0 else "complete" if m == n * (n - 1) // 2 else "partial"
    lab = [fn, spec["lib"], "graph-" + dens,
           "labels-" + ("range" if labels == list(range(n)) else
                        "mixed" if len({type(x) for x in labels}) > 1 else type(labels[0]).__name__)]
    nontrivial = n >= 3 and m >= 2 and dens == "partial"

    if fn == "loss":
        return _check_loss(spec, g, qaoa, feats, lab)

    if fn == "maxcut":
        H, M = qaoa.maxcut(g)
        d = _diag(H, labels, fn, feats)
        _expect(d, -G.cut_size(B, edges), "objective", fn, feats, labels)
        _mixer(M, G.x_matrix(n), labels, fn, feats)
        _grouping(H, fn, feats)
    elif fn in ("mis", "mvc", "clique"):
        con = spec["constrained"]
        what = f"{fn}[{'constrained' if con else 'unconstrained'}]"
        lab.append(what)
        f = {"mis": qaoa.max_independent_set, "mvc": qaoa.min_vertex_cover, "clique": qaoa.max_clique}[fn]
        H, M = f(g, constrained=con)
        d = _diag(H, labels, what, feats)
        cons_edges = G.complement_edges(n, edges) if fn == "clique" else edges
        if fn == "mvc":
            viol = G.both_zero(B, cons_edges)     # uncovered edges
            gain = size - (n - size)               # minimise |S|: H = -sum Z = 2|S| - n
            flip_b = 1
        else:
            viol = G.both_one(B, cons_edges)      # edges (of G or its complement) inside S
            gain = (n - size) - size               # maximise |S|: H = sum Z = n - 2|S|
            flip_b = 0
        if con:
            _expect(d, gain, "objective", what, feats, labels)
            _mixer(M, G.bit_flip_matrix(n, cons_edges, flip_b), labels, what, feats)
        else:
            # semantic clause: the ground space is exactly the set of optimal feasible solutions
            feas = viol == 0
            best = gain[feas].min()
            opt = set(np.nonzero(feas & (gain == best))[0].tolist())
            got = _argmin_set(d)
            if got != opt:
                raise Viol("argmin-encodes-objective",
                           f"{what}: minimisers {sorted(got)[:6]} != optimal feasible sets {sorted(opt)[:6]} "
                           f"(wires {labels}, edges {edges})", sig=what, features=feats)
            _mixer(M, G.x_matrix(n), labels, what, feats)
            _grouping(H, what, feats)
            # docstring formula: 3 sum_E (Z_i Z_j -/+ Z_i -/+ Z_j) +/- sum_V Z_i, evaluated on Z = 1 - 2x
            Z = 1 - 2 * B
            s = 1 if fn == "mvc" else -1
            ref = np.zeros(2 ** n)
            for i, j in cons_edges:
                ref = ref + 3 * (Z[:, i] * Z[:, j] + s * Z[:, i] + s * Z[:, j])
            ref = ref + (-1 if fn == "mvc" else 1) * Z.sum(1)
            _expect(d, ref, "docstring-formula", what, dict(feats, has_edges=bool(cons_edges)), labels)
        if con:
            _grouping(H, what, feats)
    elif fn == "edge_driver":
        rew = spec["reward"]
        rs = sorted(set(rew))
        if len(rs) != len(rew):
            raise Reject("reward list with repeated entries (outside the documented domain)")
        what = "edge_driver[" + ",".join(rs) + "]"
        lab.append(what)
        feats = dict(feats, reward=rs)
        H = qaoa.edge_driver(g, list(rew))
        d = _diag(H, labels, what, feats)
        pen = G.penalised_edges(B, edges, rs)
        if len(rs) == 3:
            _expect(d, pen - m / 4.0, "edge-driver-energies", what, feats, labels)
        else:
            _expect(d - d[0], pen - pen[0], "edge-driver-unit-gap", what, feats, labels)
        nontrivial = nontrivial and 0 < len(rs) < 4
    elif fn == "bit_flip_mixer":
        what = f"bit_flip_mixer[b={spec['b']}]"
        lab.append(what)
        _mixer(qaoa.bit_flip_mixer(g, spec["b"]), G.bit_flip_matrix(n, edges, spec["b"]), labels, what, feats)
    elif fn == "xy_mixer":
        _mixer(qaoa.xy_mixer(g), G.xy_matrix(n, edges), labels, fn, feats)
    else:
        raise AssertionError(fn)
    return Result(nontrivial, lab)


def _check_loss(spec, g, qaoa, feats, lab):
    """loss_hamiltonian on an undirected weighted graph: wires from edges_to_wires, coefficient log(weight)."""
    labels, edges, w = spec["labels"], [tuple(e) for e in spec["edges"]], spec["weights"]
    m = len(edges)
    e2w = qaoa.cycle.edges_to_wires(g)
    w2e = qaoa.cycle.wires_to_edges(g)
    wt = {frozenset((labels[i], labels[j])): w[k] for k, (i, j) in enumerate(edges)}
    _mapping(e2w, w2e, [frozenset(k) for k in wt], m, "loss", feats, undirected=True)
    H = qaoa.loss_hamiltonian(g)
    order = list(range(m))
    B = G.bits(m)
    ref = np.zeros(2 ** m)
    for k in range(m):
        ref = ref + (1 - 2 * B[:, k]) * math.log(wt[frozenset(w2e[k])])
    _expect(_diag(H, order, "loss", feats), ref, "loss", "loss[undirected]", feats, order)
    _grouping(H, "loss", feats)
    return Result(m >= 2, lab + ["loss[undirected]"])


def _mapping(e2w, w2e, arcs, m, what, feats, undirected=False):
    conv = (lambda e: frozenset(e)) if undirected else (lambda e: tuple(e))
    vals = [conv(e) for e in w2e.values()]
    if sorted(w2e.keys()) != list(range(m)) or len(set(vals)) != len(vals) or set(vals) != set(arcs) or len(arcs) != m:
        raise Viol("wires-to-edges", f"{what}: {w2e} is not a bijection range({m}) -> edges {arcs}", sig=what,
                   features=feats)
    if {conv(e): k for e, k in e2w.items()} != {conv(e): k for k, e in w2e.items()}:
        raise Viol("edges-to-wires", f"{what}: edges_to_wires {e2w} is not the inverse of wires_to_edges {w2e}",
                   sig=what, features=feats)


def _cycle_matrix(m, n, arc_wire):
    """sum over arcs (i,j) and nodes k with (i,k),(k,j) arcs: |ij=0,ik=1,kj=1><ij=1,ik=0,kj=0| + h.c."""
    B = G.bits(m)
    M = np.zeros((2 ** m, 2 ** m))
    for (i, j), a in arc_wire.items():
        for k in range(n):
            if k in (i, j) or (i, k) not in arc_wire or (k, j) not in arc_wire:
                continue
            b, c = arc_wire[(i, k)], arc_wire[(k, j)]
            flip = (1 << (m - 1 - a)) | (1 << (m - 1 - b)) | (1 << (m - 1 - c))
            for s in range(2 ** m):
                t = (B[s, a], B[s, b], B[s, c])
                if t == (1, 0, 0) or t == (0, 1, 1):
                    M[s ^ flip, s] += 1
    return M


def _check_directed(spec, qaoa, feats):
    fn, labels, w = spec["fn"], spec["labels"], spec["weights"]
    arcs = [tuple(e) for e in spec["edges"]]
    n, m = len(labels), len(arcs)
    g = build(spec)
    idx = {l: i for i, l in enumerate(labels)}
    e2w = qaoa.cycle.edges_to_wires(g)
    w2e = qaoa.cycle.wires_to_edges(g)
    lab_arcs = [(labels[i], labels[j]) for i, j in arcs]
    _mapping(e2w, w2e, lab_arcs, m, fn, feats)
    by_wire = [(idx[w2e[k][0]], idx[w2e[k][1]]) for k in range(m)]       # arc (index pair) of wire k
    arc_wire = {a: k for k, a in enumerate(by_wire)}
    weight = {a: w[k] for k, a in enumerate(arcs)}
    order = list(range(m))
    B = G.bits(m)
    loss = np.zeros(2 ** m)
    for k, a in enumerate(by_wire):
        loss = loss + (1 - 2 * B[:, k]) * math.log(weight[a])
    net = G.net_flow_sq(B, n, by_wire)
    out = G.out_flow_excess(B, n, by_wire)
    tri = any((i, k) in arc_wire and (k, j) in arc_wire for (i, j) in by_wire for k in range(n) if k not in (i, j))
    lab = [fn, spec["lib"], "directed", f"arcs-{m}", "triangle" if tri else "no-triangle"]
    nontrivial = m >= 3

    if fn == "loss":
        H = qaoa.loss_hamiltonian(g)
        _expect(_diag(H, order, fn, feats), loss, "loss", "loss[directed]", feats, order)
        _grouping(H, fn, feats)
    elif fn == "net_flow":
        H = qaoa.net_flow_constraint(g)
        d = _diag(H, order, fn, feats)
        if _argmin_set(d) != set(np.nonzero(net == 0)[0].tolist()):
            raise Viol("net-flow-minimisers", f"minimisers {sorted(_argmin_set(d))[:8]} are not the zero-net-flow sets "
                                              f"(arcs by wire {by_wire})", sig=fn, features=feats)
        _expect(d, 4 * net, "net-flow-formula", fn, feats, order)
    elif fn == "out_flow":
        H = qaoa.out_flow_constraint(g)
        d = _diag(H, order, fn, feats)
        if _argmin_set(d) != set(np.nonzero(out == 0)[0].tolist()):
            raise Viol("out-flow-minimisers", f"minimisers {sorted(_argmin_set(d))[:8]} are not the out-flow<=1 sets "
                                              f"(arcs by wire {by_wire})", sig=fn, features=feats)
        _expect(d, 4 * out, "out-flow-formula", fn, feats, order)
    elif fn == "cycle_mixer":
        _mixer(qaoa.cycle_mixer(g), _cycle_matrix(m, n, arc_wire), order, fn, feats)
        nontrivial = tri
    elif fn == "mwc":
        con = spec["constrained"]
        what = f"mwc[{'constrained' if con else 'unconstrained'}]"
        lab.append(what)
        H, M, mapping = qaoa.max_weight_cycle(g, constrained=con)
        if dict(mapping) != dict(w2e):
            raise Viol("mwc-mapping", f"{what}: mapping {mapping} != wires_to_edges {w2e}", sig=what, features=feats)
        d = _diag(H, order, what, feats)
        if con:
            _expect(d, loss, "objective", what, feats, order)
            _grouping(H, what, feats)
            ref = _cycle_matrix(m, n, arc_wire)
            _mixer(M, ref, order, what, feats)
            # the mixer keeps the zero-net-flow ("collections of cycles") subspace invariant
            Md = G.dense(_sent(M, what), order).real if m else np.zeros((1, 1))
            ok = net == 0
            if m and np.abs(Md[np.ix_(~ok, ok)]).max(initial=0) > TOL:
                raise Viol("cycle-mixer-invariance", f"{what}: mixer leaves the zero-net-flow subspace", sig=what,
                           features=feats)
        else:
            _expect(d, loss + 12 * net + 12 * out, "objective", what, feats, order)
            _mixer(M, G.x_matrix(m), order, what, feats)
    else:
        raise AssertionError(fn)
    return Result(nontrivial, lab)


def selftest():
    G.selftest()
    # cycle matrix of the complete digraph on 3 nodes: 6 triangles, each a 2-element exchange -> Hermitian 0/1 matrix
    arcs = [(i, j) for i in range(3) for j in range(3) if i != j]
    M = _cycle_matrix(6, 3, {a: k for k, a in enumerate(arcs)})
    assert np.allclose(M, M.T) and M.sum() == 6 * 2 * 2 ** 3
