"""C61 — optimizers apply their documented update rules (histories of step / step_and_cost / reset)."""
import itertools
import math

import numpy as np
from hypothesis import strategies as st

from pv.engine import Reject, Result, Viol
from pv.ref import optim as R

ID = "C61"
TECHNIQUE = ("hypothesis-generated call histories (step / step_and_cost / reset, user grad_fn, several trainable and "
             "non-trainable arguments) vs an independent numpy re-implementation of each docstring formula with "
             "analytic gradients; Rotosolve/Rotoselect sub-problems vs dense-grid global minima")
RULE = (
    "Specs: optimizer (GradientDescent, Momentum, NesterovMomentum, Adagrad, RMSProp, Adam, QNG and MomentumQNG with "
    "a supplied metric_tensor_fn or a QNode with the automatic block-diagonal metric, SPSA) x hyperparameters in the "
    "documented ranges x an objective f(args) = sum_j [q v^2/2 + l v + s sin(w v + p)] + c prod_j v_j[0] over 1-3 "
    "trainable arguments of shapes () / (k,) / (2,2) plus non-trainable ones (tensor with requires_grad=False or "
    "plain ndarray) x a history of 1-8 calls. Oracle: pv.ref.optim carries its own accumulators across the history "
    "and is fed the analytic gradient; after every call the returned trainable arguments equal the reference "
    "(1e-10 rel.), non-trainable arguments come back unchanged, step_and_cost returns f at the pre-step arguments; "
    "SPSA: perturbations read off the recorded objective calls must be +-c_k per entry and the update must follow "
    "the documented gain sequences. Rotosolve / Rotoselect: trigonometric objectives with known spectra; after "
    "each coordinate sub-step the objective equals the global minimum of the univariate restriction found on a "
    "1024-point grid + golden section (1e-8 analytic, 1e-6 numeric), Rotoselect additionally over all candidate "
    "generators. Non-trivial: >= 3 optimizer steps and >= 2 trainable arguments (accumulators and argument "
    "bookkeeping matter) or a Roto* step with >= 2 parameters."
)
ASSUMPTIONS = [
    "A user grad_fn returns what qp.grad returns: a bare array for one trainable argument, a tuple otherwise.",
    "A user metric_tensor_fn returns one tensor of shape arg.shape + arg.shape per trainable argument (bare for a "
    "single trainable argument, tuple otherwise) and a fresh array on every call.",
    "The reference is re-based on PennyLane's returned arguments after every call, so only one update (plus the "
    "carried accumulator state) is compared at a time; chaotic amplification over long histories is excluded.",
    "Rotosolve numeric sub-steps (more than one frequency) are rejected when a second basin lies within 5e-2 of the "
    "global minimum (the documented brute-force grid cannot resolve it).",
    "substep_optimizer='shgo' is run with substep_kwargs n=64, iters=2, sampling_method='sobol' (deterministic): with "
    "SciPy's default of 3 sampling points SHGO itself often stops at the interval boundary, which is not PennyLane's claim.",
    "SPSA perturbations come from numpy's global RNG, seeded from the spec and restored afterwards.",
]
BUDGET = {"quick": {"examples": 330}, "thorough": {"examples": 20000, "shards": 16}}
SHRINK_LISTS = ("calls", "terms")
TOL = 1e-10

GRADIENT = ["GradientDescent", "Momentum", "NesterovMomentum", "Adagrad", "RMSProp", "Adam", "QNG", "MomentumQNG"]
HAS_RESET = {"Momentum", "NesterovMomentum", "Adagrad", "RMSProp", "Adam"}
SHAPES = [[], [1], [2], [3], [2, 2]]


# ------------------------------------------------------------------------------------------------ generators
def _f(lo, hi, digits=3):
    return st.floats(lo, hi).map(lambda x: round(x, digits))


@st.composite
def _args(draw, min_train=1):
    n = draw(st.sampled_from([1, 2, 2, 3, 3]))
    out = []
    for _ in range(n):
        shape = draw(st.sampled_from(SHAPES))
        size = int(np.prod(shape)) if shape else 1
        out.append({"shape": shape, "values": [draw(_f(-2, 2)) for _ in range(size)],
                    "kind": draw(st.sampled_from(["train", "train", "train", "train", "fixed-tensor", "fixed-ndarray"]))})
    if sum(a["kind"] == "train" for a in out) < min_train:
        out[draw(st.integers(0, n - 1))]["kind"] = "train"
    return out


@st.composite
def _objective(draw, args):
    terms = []
    for a in args:
        k = len(a["values"])
        terms.append({"q": [draw(_f(-1, 2)) for _ in range(k)], "l": [draw(_f(-1, 1)) for _ in range(k)],
                      "s": [draw(_f(-1, 1)) for _ in range(k)], "w": [draw(st.sampled_from([1.0, 2.0, 0.5, 3.0])) for _ in range(k)],
                      "p": [draw(_f(-3, 3)) for _ in range(k)]})
    return {"terms": terms, "cross": draw(st.sampled_from([0.0, 0.5, -1.0, 0.25]))}


def _hyper(draw, opt):
    h = {"stepsize": draw(st.sampled_from([0.01, 0.1, 0.5, 0.001, 0.25]))}
    if opt in ("Momentum", "NesterovMomentum", "MomentumQNG"):
        h["momentum"] = draw(st.sampled_from([0.9, 0.5, 0.0, 0.99, 0.3]))
    if opt in ("Adagrad", "RMSProp", "Adam"):
        h["eps"] = draw(st.sampled_from([1e-8, 1e-4, 1e-2]))
    if opt == "RMSProp":
        h["decay"] = draw(st.sampled_from([0.9, 0.5, 0.99]))
    if opt == "Adam":
        h["beta1"] = draw(st.sampled_from([0.9, 0.5, 0.8]))
        h["beta2"] = draw(st.sampled_from([0.99, 0.9, 0.999]))
    if opt in ("QNG", "MomentumQNG"):
        h["lam"] = draw(st.sampled_from([0.0, 0.0, 0.1, 1.0]))
    return h


@st.composite
def _history(draw, opt):
    args = draw(_args())
    spec = {"kind": "gradient", "opt": opt, "hyper": _hyper(draw, opt), "args": args,
            "objective": draw(_objective(args))}
    n = draw(st.sampled_from([1, 2, 3, 4, 5, 6, 8]))
    calls = []
    for _ in range(n):
        c = {"call": draw(st.sampled_from(["step", "step", "step_and_cost"])), "grad_fn": draw(st.integers(0, 3)) == 0}
        if opt in ("QNG", "MomentumQNG"):
            c["recompute"] = draw(st.integers(0, 3)) > 0
        calls.append(c)
        if opt in HAS_RESET and draw(st.integers(0, 7)) == 0:
            calls.append({"call": "reset"})
    spec["calls"] = calls
    if opt in ("QNG", "MomentumQNG"):
        ntr = [a for a in args if a["kind"] == "train"]
        spec["metric"] = [{"B": [[draw(_f(-1, 1)) for _ in a["values"]] for _ in range(draw(st.integers(1, 3)))],
                           "diag": draw(st.sampled_from([0.0, 0.5, 1.0])), "state_dep": draw(st.booleans())} for a in ntr]
    return spec


@st.composite
def _spsa(draw):
    args = draw(_args())
    spec = {"kind": "spsa", "opt": "SPSA", "args": args, "objective": draw(_objective(args)),
            "hyper": {"alpha": draw(st.sampled_from([0.602, 1.0, 0.5])), "gamma": draw(st.sampled_from([0.101, 1 / 6, 0.3])),
                      "c": draw(st.sampled_from([0.2, 0.05, 1.0])), "a": draw(st.sampled_from([0.1, 0.5, 0.02])),
                      "A": draw(st.sampled_from([None, 1.0, 10.0])), "maxiter": draw(st.sampled_from([20, 100]))},
            "seed": draw(st.integers(0, 10 ** 6)),
            "calls": [{"call": draw(st.sampled_from(["step", "step_and_cost"]))} for _ in range(draw(st.integers(1, 6)))]}
    return spec


@st.composite
def _trig(draw, n_params, max_freq, allow_real=False):
    """f(theta) = const + sum_t A_t prod_{i in S_t} cos(k_ti theta_i + phi_ti)"""
    real = [draw(st.sampled_from([None, None, 0.5, 1.5, 2.5, 0.8])) if allow_real else None for _ in range(n_params)]
    terms = []
    for _ in range(draw(st.integers(1, 4))):
        S = draw(st.lists(st.integers(0, n_params - 1), min_size=1, max_size=min(3, n_params), unique=True))
        terms.append({"A": draw(_f(-2, 2).filter(lambda v: abs(v) > 0.05)),
                      "f": [[i, real[i] if real[i] else float(draw(st.integers(1, max_freq))), draw(_f(-3, 3))] for i in S]})
    return {"const": draw(_f(-1, 1)), "terms": terms, "real": real}


@st.composite
def _rotosolve(draw):
    shapes = draw(st.lists(st.sampled_from([[], [1], [2], [3]]), min_size=1, max_size=3))
    kinds = [draw(st.sampled_from(["train", "train", "train", "fixed"])) for _ in shapes]
    if "train" not in kinds:
        kinds[0] = "train"
    sizes = [int(np.prod(s)) if s else 1 for s in shapes]
    n = sum(sizes)
    spec = {"kind": "rotosolve", "opt": "Rotosolve", "shapes": shapes, "kinds": kinds,
            "values": [draw(_f(-3, 3)) for _ in range(n)],
            "trig": draw(_trig(n, draw(st.sampled_from([1, 1, 2, 3])), allow_real=draw(st.booleans()))),
            "substep": draw(st.sampled_from(["brute", "brute", "shgo"])),
            "call": draw(st.sampled_from(["step", "step_and_cost"])), "full_output": draw(st.booleans()),
            "extra_kwarg": draw(st.integers(0, 5)) == 0}
    return spec


@st.composite
def _rotoselect(draw):
    n = draw(st.integers(1, 4))
    # per position and generator: amplitude, phase, offset of a separable part, plus one product term
    table = [[[draw(_f(-2, 2)), draw(_f(-3, 3)), draw(_f(-1, 1))] for _ in range(3)] for _ in range(n)]
    return {"kind": "rotoselect", "opt": "Rotoselect", "n": n, "table": table,
            "prod": draw(st.sampled_from([0.0, 0.5, -1.0])),
            "values": [draw(_f(-3, 3)) for _ in range(n)], "gens": [draw(st.integers(0, 2)) for _ in range(n)],
            "possible": draw(st.sampled_from([[0, 1, 2], [0, 1, 2], [2, 0], [1], [2, 1, 0]])),
            "call": draw(st.sampled_from(["step", "step_and_cost"])), "steps": draw(st.integers(1, 2)),
            "objective": draw(st.sampled_from(["table", "table", "table", "qnode"]))}


def strategy(tier):
    strata = [_history(o) for o in GRADIENT] + [_spsa(), _rotosolve(), _rotosolve(), _rotoselect()]

    @st.composite
    def pick(draw):
        return draw(strata[draw(st.integers(0, 2 ** 30)) % len(strata)])

    return pick()


def enumerate_cases(tier):
    """Every gradient optimizer on the same 4-call history with two trainable arguments and one fixed one; QNG and
    MomentumQNG additionally on a QNode with the automatic metric tensor."""
    args = [{"shape": [2], "values": [0.4, -1.1], "kind": "train"}, {"shape": [], "values": [0.7], "kind": "fixed-tensor"},
            {"shape": [2, 2], "values": [1.0, -0.5, 0.25, 2.0], "kind": "train"}]
    obj = {"terms": [{"q": [1.0, 0.5], "l": [0.2, -0.3], "s": [0.5, 1.0], "w": [1.0, 2.0], "p": [0.1, -0.4]},
                     {"q": [0.0], "l": [1.0], "s": [0.0], "w": [1.0], "p": [0.0]},
                     {"q": [1.5, 0.3, 0.0, 1.0], "l": [0.0, 0.1, -0.2, 0.3], "s": [0.3, 0.0, 0.7, -0.5],
                      "w": [1.0, 1.0, 3.0, 0.5], "p": [0.0, 0.5, 1.0, -1.0]}], "cross": 0.5}
    hyper = {"stepsize": 0.1, "momentum": 0.9, "eps": 1e-8, "decay": 0.9, "beta1": 0.9, "beta2": 0.99, "lam": 0.1}
    calls = [{"call": "step_and_cost", "grad_fn": False, "recompute": True}, {"call": "step", "grad_fn": False, "recompute": True},
             {"call": "step_and_cost", "grad_fn": True, "recompute": False}, {"call": "step_and_cost", "grad_fn": False, "recompute": True}]
    for opt in GRADIENT:
        spec = {"kind": "gradient", "opt": opt, "hyper": hyper, "args": args, "objective": obj, "calls": calls}
        if opt in ("QNG", "MomentumQNG"):
            spec["metric"] = [{"B": [[0.5, -0.2], [0.1, 0.9]], "diag": 0.5, "state_dep": True},
                              {"B": [[0.3, 0.1, -0.4, 0.2]], "diag": 1.0, "state_dep": False}]
        yield spec
    for opt in ("QNG", "MomentumQNG"):
        for approx in ("block-diag", "diag"):
            yield {"kind": "qnode", "opt": opt, "hyper": {"stepsize": 0.1, "momentum": 0.8, "lam": 0.01, "approx": approx},
                   "values": [0.4, -0.9, 1.3], "calls": [{"call": "step_and_cost"}, {"call": "step"}, {"call": "step_and_cost"}]}


# ------------------------------------------------------------------------------------------------ objective model
def f_numpy(obj, vals):
    """vals: list of float arrays (all arguments)."""
    tot = 0.0
    for t, v in zip(obj["terms"], vals):
        v = np.asarray(v, dtype=float).reshape(-1)
        q, l, s, w, p = (np.asarray(t[k]) for k in "qlswp")
        tot += float(np.sum(0.5 * q * v ** 2 + l * v + s * np.sin(w * v + p)))
    return tot + obj["cross"] * float(np.prod([np.asarray(v).reshape(-1)[0] for v in vals]))


def grad_numpy(obj, vals, j):
    t = obj["terms"][j]
    v = np.asarray(vals[j], dtype=float)
    flat = v.reshape(-1)
    q, l, s, w, p = (np.asarray(t[k]) for k in "qlswp")
    g = q * flat + l + s * w * np.cos(w * flat + p)
    g[0] += obj["cross"] * float(np.prod([np.asarray(u).reshape(-1)[0] for i, u in enumerate(vals) if i != j]))
    return g.reshape(v.shape)


def make_objective(obj):
    from pennylane import numpy as pnp

    def f(*args, **kwargs):
        tot = 0.0
        heads = []
        for t, a in zip(obj["terms"], args):
            v = pnp.reshape(a, (-1,))
            q, l, s, w, p = (np.asarray(t[k]) for k in "qlswp")
            tot = tot + pnp.sum(0.5 * q * v ** 2 + l * v + s * pnp.sin(w * v + p))
            heads.append(v[0])
        cr = obj["cross"]
        for h in heads:
            cr = cr * h
        return tot + cr

    return f


def build_args(args):
    from pennylane import numpy as pnp

    out = []
    for a in args:
        arr = np.array(a["values"], dtype=float).reshape(a["shape"])
        if a["kind"] == "train":
            out.append(pnp.array(arr, requires_grad=True))
        elif a["kind"] == "fixed-tensor":
            out.append(pnp.array(arr, requires_grad=False))
        else:
            out.append(np.array(arr))
    return out


def _as_list(new, n):
    if n == 1:
        return [new]
    if not isinstance(new, (list, tuple)) or len(new) != n:
        raise Viol("return-arity", f"{type(new).__name__} of length {len(new) if hasattr(new, '__len__') else '?'} for "
                                   f"{n} arguments")
    return list(new)


def _close(a, b, tol=TOL):
    a, b = np.asarray(a, dtype=float), np.asarray(b, dtype=float)
    return a.shape == b.shape and bool(np.all(np.abs(a - b) <= tol * np.maximum(1.0, np.abs(b))))


# ------------------------------------------------------------------------------------------------ checks
def check(spec):
    return {"gradient": _check_gradient, "spsa": _check_spsa, "rotosolve": _check_rotosolve,
            "rotoselect": _check_rotoselect, "qnode": _check_qnode}[spec["kind"]](spec)


def _make_opt(qp, opt, h):
    if opt == "GradientDescent":
        return qp.GradientDescentOptimizer(h["stepsize"]), R.GD(h["stepsize"])
    if opt == "Momentum":
        return qp.MomentumOptimizer(h["stepsize"], momentum=h["momentum"]), R.Momentum(h["stepsize"], h["momentum"])
    if opt == "NesterovMomentum":
        return (qp.NesterovMomentumOptimizer(h["stepsize"], momentum=h["momentum"]),
                R.Nesterov(h["stepsize"], h["momentum"]))
    if opt == "Adagrad":
        return qp.AdagradOptimizer(h["stepsize"], eps=h["eps"]), R.Adagrad(h["stepsize"], h["eps"])
    if opt == "RMSProp":
        return (qp.RMSPropOptimizer(h["stepsize"], decay=h["decay"], eps=h["eps"]),
                R.RMSProp(h["stepsize"], h["decay"], h["eps"]))
    if opt == "Adam":
        return (qp.AdamOptimizer(h["stepsize"], beta1=h["beta1"], beta2=h["beta2"], eps=h["eps"]),
                R.Adam(h["stepsize"], h["beta1"], h["beta2"], h["eps"]))
    if opt == "QNG":
        return qp.QNGOptimizer(h["stepsize"], lam=h["lam"], approx=h.get("approx", "block-diag")), R.QNG(h["stepsize"], h["lam"])
    if opt == "MomentumQNG":
        return (qp.MomentumQNGOptimizer(h["stepsize"], momentum=h["momentum"], lam=h["lam"],
                                        approx=h.get("approx", "block-diag")),
                R.MomentumQNG(h["stepsize"], h["momentum"], h["lam"]))
    raise AssertionError(opt)


def _metric_numpy(mspec, xs):
    out = []
    for m, x in zip(mspec, xs):
        B = np.asarray(m["B"], dtype=float)
        flat = np.asarray(x, dtype=float).reshape(-1)
        G = B.T @ B + m["diag"] * np.eye(len(flat))
        if m["state_dep"]:
            G = G + np.diag(np.sin(flat) ** 2)
        out.append(G.reshape(np.shape(x) + np.shape(x)))
    return out


def _check_gradient(spec):
    import pennylane as qp

    opt_name, obj = spec["opt"], spec["objective"]
    popt, ropt = _make_opt(qp, opt_name, spec["hyper"])
    f = make_objective(obj)
    cur = build_args(spec["args"])
    n = len(cur)
    tr = [i for i, a in enumerate(spec["args"]) if a["kind"] == "train"]
    feats = {"opt": opt_name}
    qng = opt_name in ("QNG", "MomentumQNG")

    def ref_grad_at(vals_all):
        return lambda xs: [grad_numpy(obj, _merge(vals_all, tr, xs), j) for j in tr]

    def user_grad(*a, **k):
        vals = [np.asarray(x, dtype=float) for x in a]
        gs = tuple(grad_numpy(obj, vals, j) for j in tr)
        return gs[0] if len(gs) == 1 else gs

    def metric_fn(*a, **k):
        gs = _metric_numpy(spec["metric"], [np.asarray(a[j], dtype=float) for j in tr])
        return gs[0] if len(gs) == 1 else tuple(gs)

    steps = 0
    pending = None
    for ci, c in enumerate(spec["calls"]):
        if c["call"] == "reset":
            popt.reset()
            ropt.reset()
            continue
        vals = [np.array(x, dtype=float) for x in cur]
        kw = {"grad_fn": user_grad} if c.get("grad_fn") else {}
        if qng:
            kw.update(metric_tensor_fn=metric_fn, recompute_tensor=bool(c["recompute"]))
            expected = ropt.step([vals[j] for j in tr], ref_grad_at(vals),
                                 lambda xs: _metric_numpy(spec["metric"], xs), recompute=bool(c["recompute"]))
        else:
            expected = ropt.step([vals[j] for j in tr], ref_grad_at(vals))
        if c["call"] == "step":
            new = popt.step(f, *cur, **kw)
        else:
            new, cost = popt.step_and_cost(f, *cur, **kw)
        new = _as_list(new, n)
        steps += 1
        where = f"{opt_name} call {ci} ({c['call']}{', grad_fn' if c.get('grad_fn') else ''})"
        for i in range(n):
            if i in tr:
                e = expected[tr.index(i)]
                if not _close(new[i], e):
                    raise Viol("update-rule", f"{where}: argument {i}: got {np.asarray(new[i]).tolist()} expected "
                                              f"{e.tolist()} from {vals[i].tolist()}", sig=opt_name,
                               features=dict(feats, step=steps, grad_fn=bool(c.get("grad_fn"))))
                if not getattr(new[i], "requires_grad", False):
                    raise Viol("trainable-flag", f"{where}: argument {i} came back without requires_grad", sig=opt_name,
                               features=feats)
            elif not (np.shape(new[i]) == np.shape(cur[i]) and np.array_equal(np.asarray(new[i]), vals[i])) \
                    or getattr(new[i], "requires_grad", False):
                raise Viol("non-trainable-changed", f"{where}: argument {i}: {new[i]!r} vs {cur[i]!r}", sig=opt_name,
                           features=feats)
        if c["call"] == "step_and_cost":
            want = f_numpy(obj, vals)
            if not _close(cost, want) and pending is None:
                # raised after the whole history so that the update rules of the later calls are still checked
                pending = Viol("cost-pre-step", f"{where}: returned cost {float(cost)!r}, f(pre-step args) = {want!r}",
                               sig=opt_name, features=dict(feats, grad_fn=bool(c.get("grad_fn"))))
        cur = new
    if pending is not None:
        raise pending
    lab = [opt_name, f"steps-{min(steps, 4)}{'+' if steps > 4 else ''}", f"trainable-{len(tr)}",
           "non-trainable" if len(tr) < n else "all-trainable"]
    if any(c.get("grad_fn") for c in spec["calls"]):
        lab.append("user-grad_fn")
    if any(c["call"] == "reset" for c in spec["calls"]):
        lab.append("reset")
    return Result(steps >= 3 and len(tr) >= 2, lab)


def _merge(vals_all, tr, xs):
    out = list(vals_all)
    for j, x in zip(tr, xs):
        out[j] = x
    return out


def _check_spsa(spec):
    import pennylane as qp

    h, obj = spec["hyper"], spec["objective"]
    A = h["A"] if h["A"] is not None else 0.1 * h["maxiter"]          # documented default: 10% of maxiter
    popt = qp.SPSAOptimizer(maxiter=h["maxiter"], alpha=h["alpha"], gamma=h["gamma"], c=h["c"], A=h["A"], a=h["a"])
    ropt = R.SPSA(h["alpha"], h["gamma"], h["c"], A, h["a"])
    base = make_objective(obj)
    log = []

    def f(*args, **kwargs):
        log.append([np.array(a, dtype=float) for a in args])
        return base(*args, **kwargs)

    cur = build_args(spec["args"])
    n = len(cur)
    tr = [i for i, a in enumerate(spec["args"]) if a["kind"] == "train"]
    feats = {"opt": "SPSA"}
    state = np.random.get_state()
    try:
        for ci, c in enumerate(spec["calls"]):
            vals = [np.array(x, dtype=float) for x in cur]
            del log[:]
            np.random.seed((spec["seed"] + ci) % (2 ** 32))
            if c["call"] == "step":
                new = popt.step(f, *cur)
            else:
                new, cost = popt.step_and_cost(f, *cur)
            new = _as_list(new, n)
            where = f"SPSA call {ci} ({c['call']})"
            if len(log) < 2:
                raise Viol("spsa-evaluations", f"{where}: {len(log)} objective evaluations", sig="SPSA", features=feats)
            plus, minus = log[0], log[1]
            ak, ck = ropt.gains()
            deltas = []
            for i in range(n):
                if i in tr:
                    d = (plus[i] - vals[i]) / ck
                    if not (_close(np.abs(d), np.ones_like(d), 1e-9) and _close(minus[i], vals[i] - ck * np.sign(d), 1e-9)):
                        raise Viol("spsa-perturbation", f"{where}: evaluations at {plus[i].tolist()} / {minus[i].tolist()} are "
                                                        f"not theta +- c_k Delta with c_k = {ck!r}, Delta = +-1", sig="SPSA",
                                   features=feats)
                    deltas.append(np.sign(d))
                elif not (np.array_equal(plus[i], vals[i]) and np.array_equal(minus[i], vals[i])):
                    raise Viol("non-trainable-changed", f"{where}: non-trainable argument {i} perturbed", sig="SPSA",
                               features=feats)
            yp, ym = f_numpy(obj, plus), f_numpy(obj, minus)
            expected = ropt.step([vals[j] for j in tr], yp, ym, deltas)
            for i in range(n):
                if i in tr:
                    if not _close(new[i], expected[tr.index(i)]):
                        raise Viol("update-rule", f"{where}: argument {i}: got {np.asarray(new[i]).tolist()} expected "
                                                  f"{expected[tr.index(i)].tolist()} (a_k={ak!r}, c_k={ck!r})", sig="SPSA",
                                   features=dict(feats, step=ci + 1))
                elif not np.array_equal(np.asarray(new[i]), vals[i]):
                    raise Viol("non-trainable-changed", f"{where}: argument {i}", sig="SPSA", features=feats)
            if c["call"] == "step_and_cost" and not _close(cost, f_numpy(obj, vals)):
                raise Viol("cost-pre-step", f"{where}: cost {float(cost)!r} vs {f_numpy(obj, vals)!r}", sig="SPSA",
                           features=feats)
            cur = new
    finally:
        np.random.set_state(state)
    steps = len(spec["calls"])
    return Result(steps >= 3 and len(tr) >= 2, ["SPSA", f"steps-{min(steps, 4)}", f"trainable-{len(tr)}"])


# ---------------------------------------------------------------- Rotosolve
def trig_value(trig, theta):
    tot = trig["const"]
    for t in trig["terms"]:
        v = t["A"]
        for i, k, phi in t["f"]:
            v = v * math.cos(k * theta[i] + phi)
        tot += v
    return tot


def _check_rotosolve(spec):
    import pennylane as qp
    from pennylane import numpy as pnp

    trig, shapes, kinds = spec["trig"], spec["shapes"], spec["kinds"]
    sizes = [int(np.prod(s)) if s else 1 for s in shapes]
    offs = np.concatenate([[0], np.cumsum(sizes)]).astype(int)
    nargs = len(shapes)
    theta0 = np.array(spec["values"], dtype=float)
    freqs = [sorted({k for t in trig["terms"] for i, k, _ in t["f"] if i == p}) for p in range(len(theta0))]

    def impl(*args):
        tot = trig["const"]
        flat = [pnp.reshape(a, (-1,)) for a in args]
        for t in trig["terms"]:
            v = t["A"]
            for i, k, phi in t["f"]:
                j = int(np.searchsorted(offs, i, side="right") - 1)
                v = v * pnp.cos(k * flat[j][i - offs[j]] + phi)
            tot = tot + v
        return tot

    if spec["extra_kwarg"]:
        fns = {1: lambda a0, scale=None: impl(a0) * scale, 2: lambda a0, a1, scale=None: impl(a0, a1) * scale,
               3: lambda a0, a1, a2, scale=None: impl(a0, a1, a2) * scale}
        kwargs = {"scale": 1.0}
    else:
        fns = {1: lambda a0: impl(a0), 2: lambda a0, a1: impl(a0, a1), 3: lambda a0, a1, a2: impl(a0, a1, a2)}
        kwargs = {}
    fn = fns[nargs]
    args = []
    nums, spectra = {}, {}
    plan = []           # (flat position, frequencies) in optimisation order
    for j, (shape, kind) in enumerate(zip(shapes, kinds)):
        arr = theta0[offs[j]:offs[j + 1]].reshape(shape)
        args.append(pnp.array(arr, requires_grad=(kind == "train")))
        if kind != "train":
            continue
        for par_idx in (np.ndindex(*shape) if shape else [()]):
            p = offs[j] + (int(np.ravel_multi_index(par_idx, shape)) if shape else 0)
            fr = freqs[p]
            if not fr:
                fr = [1.0]          # parameter does not enter: any declared spectrum is consistent
            if all(float(k).is_integer() for k in fr):
                nums.setdefault(f"a{j}", {})[par_idx] = int(max(fr))
                plan.append((p, [float(k) for k in range(int(max(fr)) + 1)], "nums"))
            else:
                spectra.setdefault(f"a{j}", {})[par_idx] = [0.0] + [float(k) for k in fr]
                plan.append((p, [0.0] + [float(k) for k in fr], "spectra"))
    feats = {"opt": "Rotosolve", "substep": spec["substep"], "extra_kwarg": bool(spec["extra_kwarg"])}
    opt = qp.RotosolveOptimizer(substep_optimizer=spec["substep"],
                                substep_kwargs={"num_steps": 4} if spec["substep"] == "brute" else
                                {"n": 64, "iters": 2, "sampling_method": "sobol"})
    call = opt.step if spec["call"] == "step" else opt.step_and_cost
    try:
        res = call(fn, *args, nums_frequency=nums or None, spectra=spectra or None, full_output=spec["full_output"],
                   **kwargs)
    except ValueError as e:
        if spec["extra_kwarg"] and "zip()" in str(e):
            raise Viol("rotosolve-keyword-arguments", f"objective with an extra keyword parameter (documented usage) "
                                                      f"raises {e}", sig="Rotosolve", features=feats)
        raise
    res = list(res) if isinstance(res, tuple) else [res]
    new = res.pop(0)
    cost = res.pop(0) if spec["call"] == "step_and_cost" else None
    y_out = res.pop(0) if spec["full_output"] else None
    new = _as_list(new, nargs)
    theta_new = theta0.copy()
    for j in range(nargs):
        if np.shape(new[j]) != tuple(shapes[j]):
            raise Viol("return-shape", f"argument {j}: shape {np.shape(new[j])} != {shapes[j]}", sig="Rotosolve", features=feats)
        theta_new[offs[j]:offs[j + 1]] = np.asarray(new[j], dtype=float).reshape(-1)
        if kinds[j] != "train" and not np.array_equal(theta_new[offs[j]:offs[j + 1]], theta0[offs[j]:offs[j + 1]]):
            raise Viol("non-trainable-changed", f"argument {j}", sig="Rotosolve", features=feats)
    if cost is not None and not _close(cost, trig_value(trig, theta0)):
        raise Viol("cost-pre-step", f"returned {float(cost)!r}, f(pre-step) = {trig_value(trig, theta0)!r}",
                   sig="Rotosolve", features=feats)
    # sub-steps in order: earlier parameters already updated, later ones still at their old values
    state = theta0.copy()
    lab = ["Rotosolve", spec["substep"], spec["call"]]
    for n_sub, (p, fr, how) in enumerate(plan):
        h = lambda x, p=p: trig_value(trig, np.concatenate([state[:p], [x], state[p + 1:]]))
        pos = [k for k in fr if k > 0]
        single = len(pos) == 1
        period = 2 * math.pi / min(pos)
        if how == "spectra" and not single:
            # common period of several real frequencies may not exist: the documented search interval is one period
            # of the smallest frequency; compare on that interval only
            pass
        x0, y0, others = R.trig_minimum(h, fr, n_grid=1024, period=period, all_minima=True)
        if not single and any(1e-7 < y - y0 < 5e-2 for y in others):
            raise Reject("another basin within 5e-2 of the global minimum (numeric sub-step)")
        got = h(theta_new[p])
        tol = 1e-8 if single else 1e-6
        scale = max(1.0, abs(y0))
        if how == "spectra" and not single:
            lab.append("multi-real-frequency")
            ok = got <= y0 + tol * scale
        else:
            ok = abs(got - y0) <= tol * scale
        if not ok:
            raise Viol("rotosolve-minimum", f"sub-step {n_sub} (parameter {p}, frequencies {fr}): f = {got!r} at "
                                            f"{theta_new[p]!r}, global minimum {y0!r} at {x0!r}", sig="Rotosolve",
                       features=dict(feats, single_frequency=single))
        if single:
            shift = theta_new[p] - state[p]
            if not (-period / 2 - 1e-9 < shift <= period / 2 + 1e-9):
                raise Viol("rotosolve-range", f"sub-step {n_sub}: shift {shift!r} outside (-pi/f, pi/f]", sig="Rotosolve",
                           features=feats)
        if y_out is not None and abs(float(y_out[n_sub]) - got) > 1e-6 * scale:
            raise Viol("rotosolve-full-output", f"sub-step {n_sub}: reported {float(y_out[n_sub])!r}, objective {got!r}",
                       sig="Rotosolve", features=feats)
        lab.append("analytic" if single else "numeric")
        state[p] = theta_new[p]
    if y_out is not None and len(y_out) != len(plan):
        raise Viol("rotosolve-full-output", f"{len(y_out)} values for {len(plan)} sub-steps", sig="Rotosolve", features=feats)
    return Result(len(plan) >= 2, sorted(set(lab)))


# ---------------------------------------------------------------- Rotoselect
def _check_rotoselect(spec):
    import pennylane as qp

    n, table = spec["n"], spec["table"]
    GENS = [qp.RX, qp.RY, qp.RZ]
    possible = [GENS[i] for i in spec["possible"]]
    feats = {"opt": "Rotoselect", "objective": spec["objective"]}

    values, gen_idx = list(spec["values"]), list(spec["gens"])
    if spec["objective"] == "qnode":
        n = 2
        values, gen_idx = (values + [0.5, -0.7])[:2], (gen_idx + [0, 1])[:2]
        dev = qp.device("default.qubit", wires=2)

        @qp.qnode(dev)
        def circuit(params, generators=None):
            generators[0](params[0], wires=0)
            generators[1](params[1], wires=1)
            qp.CNOT(wires=[0, 1])
            return qp.expval(qp.Z(0)), qp.expval(qp.X(1)), qp.expval(qp.Y(0) @ qp.Y(1))

        w = [table[0][0][0], table[0][1][0], table[0][2][0]]

        def cost(x, generators=None):
            z, xx, yy = circuit(x, generators=generators)
            return w[0] * z + w[1] * xx + w[2] * yy
    else:
        def cost(x, generators=None):
            tot, prod = 0.0, spec["prod"]
            for d in range(n):
                a, b, c = table[d][GENS.index(generators[d])]
                tot += a * math.sin(float(x[d]) + b) + c
                prod *= math.cos(float(x[d]) + b) if a >= 0 else 1.0
            return tot + prod

    x = [float(v) for v in values[:n]]
    gens = [GENS[i] for i in gen_idx[:n]]
    grid = 32 if spec["objective"] == "qnode" else 256
    opt = qp.RotoselectOptimizer(possible_generators=list(possible))
    lab = ["Rotoselect", spec["objective"], spec["call"], f"possible-{len(possible)}"]
    pending = None
    for s in range(spec["steps"]):
        x_old, g_old = list(x), list(gens)
        pre = float(cost(x_old, generators=list(g_old)))
        if spec["call"] == "step":
            x_new, g_new = opt.step(cost, list(x), list(gens))
        else:
            x_new, g_new, c0 = opt.step_and_cost(cost, list(x), list(gens))
            if abs(float(c0) - pre) > 1e-9 * max(1.0, abs(pre)) and pending is None:
                pending = Viol("cost-pre-step", f"returned {float(c0)!r}, cost(x, generators) before the step = {pre!r} "
                                                f"(generators {[g.__name__ for g in g_old]} -> {[g.__name__ for g in g_new]})",
                               sig="Rotoselect", features=feats)
        x_new = [float(v) for v in x_new]
        if len(x_new) != n or len(g_new) != n:
            raise Viol("return-arity", f"{len(x_new)} values / {len(g_new)} generators for {n}", sig="Rotoselect", features=feats)
        # position d is optimised with positions < d already updated and positions > d still old
        for d in range(n):
            xs = x_new[:d] + [x_old[d]] + x_old[d + 1:]
            gs = g_new[:d] + [g_old[d]] + g_old[d + 1:]
            best = math.inf
            for cand in possible:
                h = lambda t, cand=cand: float(cost(xs[:d] + [t] + xs[d + 1:], generators=gs[:d] + [cand] + gs[d + 1:]))
                _, y0, _ = R.trig_minimum(h, [0.0, 1.0], n_grid=grid, iters=45)
                best = min(best, y0)
            keep = float(cost(xs, generators=gs))           # the starting point is kept if nothing is better
            best = min(best, keep)
            got = float(cost(x_new[:d + 1] + x_old[d + 1:], generators=g_new[:d + 1] + g_old[d + 1:]))
            if abs(got - best) > 1e-8 * max(1.0, abs(best)):
                raise Viol("rotoselect-minimum", f"step {s} position {d}: cost {got!r} with {g_new[d].__name__}"
                                                 f"({x_new[d]!r}), best over generators and angles {best!r}",
                           sig="Rotoselect", features=feats)
            if g_new[d] not in possible and g_new[d] is not g_old[d]:
                raise Viol("rotoselect-generator", f"position {d}: {g_new[d]} not among the possible generators",
                           sig="Rotoselect", features=feats)
            if not -math.pi - 1e-9 < x_new[d] <= math.pi + 1e-9 and x_new[d] != x_old[d]:
                raise Viol("rotoselect-range", f"position {d}: angle {x_new[d]!r} outside (-pi, pi]", sig="Rotoselect",
                           features=feats)
        if [g.__name__ for g in g_new] != [g.__name__ for g in g_old]:
            lab.append("generator-changed")
        x, gens = x_new, list(g_new)
    if pending is not None:
        raise pending
    return Result(n >= 2, sorted(set(lab)))


# ---------------------------------------------------------------- QNG on a QNode (automatic metric tensor)
def _qnode_model(x):
    """RY(x0) on wire 0, RX(x1) on wire 1, CNOT(0,1), RY(x2) on wire 0; cost <Z0> + 0.5 <X1> (own numpy model).
    Returns cost and the block-diagonal Fubini-Study metric: layer 1 = {x0, x1} on |00>, layer 2 = {x2}."""
    I2 = np.eye(2)
    X = np.array([[0, 1], [1, 0]], dtype=complex)
    Y = np.array([[0, -1j], [1j, 0]])
    Z = np.diag([1.0 + 0j, -1])

    def rot(P, t):
        return math.cos(t / 2) * I2 - 1j * math.sin(t / 2) * P

    CN = np.array([[1, 0, 0, 0], [0, 1, 0, 0], [0, 0, 0, 1], [0, 0, 1, 0]], dtype=complex)
    psi0 = np.zeros(4, dtype=complex)
    psi0[0] = 1
    psi1 = CN @ np.kron(rot(Y, x[0]), rot(X, x[1])) @ psi0
    psi2 = np.kron(rot(Y, x[2]), I2) @ psi1
    ev = lambda psi, O: float(np.real(psi.conj() @ O @ psi))
    cost = ev(psi2, np.kron(Z, I2)) + 0.5 * ev(psi2, np.kron(I2, X))
    K0, K1 = np.kron(Y, I2) / 2, np.kron(I2, X) / 2

    def cov(psi, A, B):
        return float(np.real(psi.conj() @ (A @ B) @ psi) - ev(psi, A) * ev(psi, B))

    G = np.zeros((3, 3))
    G[0, 0], G[1, 1], G[0, 1] = cov(psi0, K0, K0), cov(psi0, K1, K1), cov(psi0, K0, K1)
    G[1, 0] = G[0, 1]
    G[2, 2] = cov(psi1, K0, K0)
    return cost, G


def _check_qnode(spec):
    import pennylane as qp
    from pennylane import numpy as pnp

    h = spec["hyper"]
    popt, ropt = _make_opt(qp, spec["opt"], h)
    dev = qp.device("default.qubit", wires=2)

    @qp.qnode(dev)
    def circuit(x):
        qp.RY(x[0], wires=0)
        qp.RX(x[1], wires=1)
        qp.CNOT(wires=[0, 1])
        qp.RY(x[2], wires=0)
        return qp.expval(qp.Z(0) + 0.5 * qp.X(1))

    def grad(xs):
        x = xs[0]
        g = np.zeros(3)
        for i in range(3):          # exact parameter-shift on the numpy model
            e = np.zeros(3)
            e[i] = math.pi / 2
            g[i] = (_qnode_model(x + e)[0] - _qnode_model(x - e)[0]) / 2
        return [g]

    def metric(xs):
        G = _qnode_model(xs[0])[1]
        return [np.diag(np.diag(G)) if h["approx"] == "diag" else G]

    cur = pnp.array(spec["values"], requires_grad=True)
    feats = {"opt": spec["opt"], "objective": "qnode"}
    for ci, c in enumerate(spec["calls"]):
        val = np.array(cur, dtype=float)
        expected = ropt.step([val], grad, metric)[0]
        if c["call"] == "step":
            new = popt.step(circuit, cur)
        else:
            new, cost = popt.step_and_cost(circuit, cur)
            if not _close(cost, _qnode_model(val)[0], 1e-9):
                raise Viol("cost-pre-step", f"{spec['opt']} QNode call {ci}: {float(cost)!r} vs {_qnode_model(val)[0]!r}",
                           sig=spec["opt"], features=feats)
        if not _close(new, expected, 1e-8):
            raise Viol("update-rule", f"{spec['opt']} QNode call {ci} approx={h['approx']}: got {np.asarray(new).tolist()} "
                                      f"expected {expected.tolist()}", sig=spec["opt"], features=feats)
        cur = new
    return Result(len(spec["calls"]) >= 3, [spec["opt"], "qnode-auto-metric", "approx-" + h["approx"]])


def selftest():
    R.selftest()
    # analytic gradient of the objective model against central differences
    obj = {"terms": [{"q": [1.0, 0.5], "l": [0.2, -0.3], "s": [0.5, 1.0], "w": [1.0, 2.0], "p": [0.1, -0.4]},
                     {"q": [0.3], "l": [1.0], "s": [0.2], "w": [3.0], "p": [0.0]}], "cross": 0.5}
    vals = [np.array([0.4, -1.1]), np.array(0.7)]
    for j in range(2):
        g = grad_numpy(obj, vals, j)
        for k in range(vals[j].size):
            e = np.zeros(vals[j].size)
            e[k] = 1e-6
            up = [v.copy() for v in vals]
            dn = [v.copy() for v in vals]
            up[j] = (up[j].reshape(-1) + e).reshape(vals[j].shape)
            dn[j] = (dn[j].reshape(-1) - e).reshape(vals[j].shape)
            assert abs((f_numpy(obj, up) - f_numpy(obj, dn)) / 2e-6 - g.reshape(-1)[k]) < 1e-7
    c, G = _qnode_model(np.array([0.0, 0.0, 0.0]))
    assert abs(c - 1.0) < 1e-12 and np.allclose(np.diag(G), [0.25, 0.25, 0.25])
