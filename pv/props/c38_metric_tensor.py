"""C38 — metric tensors equal the Fubini-Study metric."""
import numpy as np
from hypothesis import strategies as st

from pv.cmp import to_np
from pv.engine import Reject, Result, Viol
from pv.props import c34_diff_configs as base
from pv.ref import fd, fresh, hybrid

ID = "C38"
TECHNIQUE = ("hypothesis-generated layered circuits (shared inputs, classical pre-processing) x {metric_tensor approx None / block-diag / "
             "diag, adjoint_metric_tensor, quantum_fisher}; oracle = Fubini-Study metric from finite-difference state derivatives on the "
             "independent simulator, block structure from an independently recomputed layer partition")
RULE = (
    "Circuits on 1-3 wires (int / string labels): constant generic prefix, then 1-3 layers of parametrized gates on disjoint or overlapping "
    "wires separated by CNOT/CZ/SWAP/Hadamard, plus constant-parameter gates. tape kind: every trainable parameter belongs to a gate that "
    "the transform keeps (RX, RY, RZ, PhaseShift, IsingXX/YY/ZZ, MultiRZ, PauliRot), 1-5 trainable parameters; qp.metric_tensor(tape, "
    "approx in {None, block-diag, diag}, allow_nonunitary, aux_wire given or inferred, argnum subset), tapes executed on default.qubit. "
    "qnode kind: one array argument of length 1-4 feeding the gates through smooth expressions (shared inputs, c*x, sin, products), pool "
    "extended by gates that the transform decomposes or whose generator is not a Pauli word (CRX/CRY/CRZ, ControlledPhaseShift, Rot, U1-U3, "
    "IsingXY, SingleExcitation, CRot); qp.metric_tensor(qnode, approx, allow_nonunitary) / qp.adjoint_metric_tensor(qnode) / "
    "qp.gradients.quantum_fisher(qnode) with autograd / jax / torch inputs. Oracle: g_ij = Re(<d_i psi|d_j psi> - <d_i psi|psi><psi|d_j psi>) "
    "with d psi from pv.ref.fd on pv.ref.hybrid/sim, with respect to the QNode argument (classical Jacobian included by differentiating the "
    "whole map) or the tape parameters; block-diag / diag = g restricted to the layer blocks / the diagonal of an independently computed "
    "layer partition (a trainable gate opens a new layer iff it depends, through shared wires, on a gate of the current layer), chained with "
    "the reference classical Jacobian for QNodes; entries excluded by argnum are 0; quantum_fisher = 4 g. Tolerance 1e-6. "
    "Non-trivial: >= 2 layers and a non-zero entry outside the diagonal blocks."
)
ASSUMPTIONS = [
    "metric_tensor on a *tape* returns the tensor with respect to the trainable parameters of the (expanded) tape, so the tape kind only uses "
    "gates that are not expanded (single parameter, single-term generator); decomposed gates are covered through QNodes, where the "
    "classical Jacobian of the expansion is part of the transform. Constant gates stay in the domain whatever the transform does with them: "
    "argnum is documented as indices into the parameters of the given tape (a constant PhaseShift that allow_nonunitary=False expands "
    "moves them: feature argnum_vs_expansion, known finding).",
    "block-diag / diag on QNodes use only non-expanded gates, because the layer partition is defined on the expanded tape.",
    "Analytic execution on default.qubit with a free auxiliary wire; generators are Hermitian (all pool gates are unitary).",
    "One QNode argument (array); the output layout for several arguments is not specified precisely enough ('can vary widely').",
]
BUDGET = {"quick": {"examples": 170, "min_nontrivial": 30}, "thorough": {"examples": 10000, "shards": 16, "min_nontrivial": 400}}
SHRINK_LISTS = ("ops",)
TOL = 1e-6

KEPT = {"RX": 1, "RY": 1, "RZ": 1, "PhaseShift": 1, "IsingXX": 2, "IsingYY": 2, "IsingZZ": 2}
KEPT_WEIGHTED = ["RX", "RX", "RY", "RY", "RZ", "RZ", "PhaseShift", "IsingXX", "IsingXX", "IsingYY", "IsingYY", "IsingZZ", "IsingZZ"]
EXTRA_WEIGHTED = ["CRX", "CRY", "CRZ", "ControlledPhaseShift", "ControlledPhaseShift", "Rot", "Rot", "U1", "U1", "U2", "U2", "U3", "U3",
                  "IsingXY", "IsingXY", "IsingXY", "SingleExcitation", "SingleExcitation", "SingleExcitation", "CRot"]
EXTRA = {"CRX": (1, 2), "CRY": (1, 2), "CRZ": (1, 2), "ControlledPhaseShift": (1, 2), "Rot": (3, 1), "U1": (1, 1), "U2": (2, 1), "U3": (3, 1),
         "IsingXY": (1, 2), "SingleExcitation": (1, 2), "CRot": (3, 2)}
_val = base._val


@st.composite
def _layered(draw, leaf, extended, kept_prefix=False):
    """ops of a layered circuit; `leaf()` returns the expression for the next trainable slot (or None when exhausted)."""
    n = draw(st.sampled_from([1, 2, 2, 3, 3]))
    wires = draw(st.sampled_from([list(range(6)), ["a", "b", "c", "d", "e", "f"], [3, "x", 0, "q1", 7, 2]]))[:n]
    ops = []
    for k, w in enumerate(wires):
        if kept_prefix:  # gates that the transform does not expand, so that tape-parameter indices stay put
            ops.append({"op": "RY", "p": [["const", round(0.9 + 0.37 * k, 3)]], "w": [w]})
            ops.append({"op": "RZ", "p": [["const", round(0.5 - 0.21 * k, 3)]], "w": [w]})
        else:
            ops.append({"op": "U3", "p": [["const", round(0.9 + 0.37 * k, 3)], ["const", round(0.5 - 0.21 * k, 3)], ["const", round(0.3 + 0.13 * k, 3)]], "w": [w]})

    def sub(k):
        return list(draw(st.permutations(wires)))[:k]

    def par():
        e = leaf(draw) if draw(st.integers(0, 5)) > 0 else None
        return e if e is not None else ["const", draw(_val)]

    def gate():
        kind = draw(st.sampled_from(["kept"] * 6 + ["multirz", "paulirot"] + (["extra"] * 3 if extended else [])))
        if kind == "kept":
            g = draw(st.sampled_from([x for x in KEPT_WEIGHTED if KEPT[x] <= n]))
            return {"op": g, "p": [par()], "w": sub(KEPT[g])}
        if kind == "multirz":
            return {"op": "MultiRZ", "p": [par()], "w": sub(draw(st.integers(1, n)))}
        if kind == "paulirot":
            k = draw(st.integers(1, n))
            return {"op": "PauliRot", "p": [par()], "w": sub(k), "kw": {"pauli_word": draw(st.text("XYZ", min_size=k, max_size=k))}}
        g = draw(st.sampled_from([x for x in EXTRA_WEIGHTED if EXTRA[x][1] <= n]))
        npar, k = EXTRA[g]
        return {"op": g, "p": [par() for _ in range(npar)], "w": sub(k)}

    for layer in range(draw(st.integers(1, 3))):
        for _ in range(draw(st.integers(1, 3))):
            ops.append(gate())
        if n >= 2 and draw(st.integers(0, 3)) > 0:
            ops.append({"op": draw(st.sampled_from(["CNOT", "CZ", "SWAP"])), "p": [], "w": sub(2)})
        elif draw(st.booleans()):
            ops.append({"op": draw(st.sampled_from(["Hadamard", "S", "SX"])), "p": [], "w": sub(1)})
    return wires, ops


@st.composite
def _tape_case(draw, tier):
    count = [0]
    nmax = draw(st.integers(1, 5))

    def leaf(d):
        if count[0] >= nmax:
            return None
        count[0] += 1
        return ["arg", count[0] - 1, None]

    wires, ops = draw(_layered(leaf, False, kept_prefix=True))
    if count[0] == 0:
        ops.append({"op": "RY", "p": [["arg", 0, None]], "w": [wires[0]]})
        count[0] = 1
    n = count[0]
    args = [{"shape": [], "val": [draw(_val)]} for _ in range(n)]
    approx = draw(st.sampled_from([None, None, "block-diag", "diag"]))
    kw = {"approx": approx, "allow_nonunitary": draw(st.booleans()), "aux": draw(st.sampled_from(["explicit", "infer", "device_wires"])),
          "argnum": draw(st.one_of(st.none(), st.none(), st.lists(st.integers(0, n - 1), min_size=1, max_size=n, unique=True).map(sorted)))}
    return {"kind": "tape", "prog": {"args": args, "wires": wires, "ops": ops, "meas": [{"mp": "expval", "obs": {"op": "PauliZ", "w": [wires[0]]}}]}, "kw": kw}


@st.composite
def _qnode_case(draw, tier):
    k = draw(st.sampled_from([1, 2, 2, 3, 3, 4]))
    leaves = [["arg", 0, i] for i in range(k)]
    fn = draw(st.sampled_from(["metric_tensor", "metric_tensor", "metric_tensor", "adjoint_metric_tensor", "adjoint_metric_tensor", "quantum_fisher"]))
    approx = draw(st.sampled_from([None, None, "block-diag", "diag"])) if fn == "metric_tensor" else None
    extended = approx is None
    used = [0]

    def leaf(d):
        used[0] += 1
        return d(st.one_of(st.sampled_from(leaves), st.sampled_from(leaves), base._expr(leaves, 1), base._expr(leaves, 2)))

    wires, ops = draw(_layered(leaf, extended))
    if used[0] == 0:
        ops.append({"op": "RY", "p": [leaves[0]], "w": [wires[0]]})
    args = [{"shape": [k], "val": [draw(_val) for _ in range(k)]}]
    nm = draw(st.sampled_from([1, 1, 2]))
    meas = [{"mp": "expval", "obs": {"op": "PauliZ", "w": [wires[0]]}}, {"mp": "probs", "w": [wires[-1]]}][:nm]
    return {"kind": "qnode", "prog": {"args": args, "wires": wires, "ops": ops, "meas": meas}, "fn": fn, "approx": approx,
            "allow_nonunitary": draw(st.booleans()), "iface": draw(st.sampled_from(["autograd", "autograd", "jax", "torch"]))}


def strategy(tier):
    return st.integers(0, 9).flatmap(lambda i: _tape_case(tier) if i < 4 else _qnode_case(tier))


# ------------------------------------------------------------------------------------------------ reference

def fs_metric(prog):
    """Fubini-Study metric of the program's final state with respect to its flat inputs."""
    if hybrid.batch_size(prog) is not None:
        raise Reject("broadcast")

    def state(x):
        return hybrid.ref_state(prog, hybrid.unflatten(prog, x))[0]

    x0 = hybrid.flat_x(prog)
    psi = state(x0)
    try:
        D, err = fd.jacobian(state, x0)  # (dim, n)
    except fd.FDError:
        raise Reject("reference finite differences did not converge") from None
    A = D.conj().T @ D
    b = D.conj().T @ psi
    return np.real(A - np.outer(b, b.conj())), err


def trainable_ops(prog):
    """[(op index, expression)] for every argument-dependent gate parameter, in tape order."""
    out = []
    for i, o in enumerate(prog["ops"]):
        for e in hybrid.op_exprs(o):
            if not hybrid.is_const(e):
                out.append((i, e))
    return out


def _op_wires(o):
    ws = list(o.get("w", []))
    if "base" in o:
        ws = list(o.get("cw", [])) + _op_wires(o["base"])
    return [hybrid.specs.wire(w) for w in ws]


def layer_partition(prog):
    """Layer id per trainable gate parameter: a trainable gate opens a new layer iff one of its ancestors (dependency through shared
    wires, transitively) is in the current layer."""
    ops = prog["ops"]
    last, anc = {}, []
    for i, o in enumerate(ops):
        a = set()
        for w in _op_wires(o):
            if w in last:
                a.add(last[w])
                a |= anc[last[w]]
        anc.append(a)
        for w in _op_wires(o):
            last[w] = i
    layers, current, lid = [], set(), 0
    for i, _ in trainable_ops(prog):
        if anc[i] & current:
            current = set()
            lid += 1
        current.add(i)
        layers.append(lid)
    return layers


def block_mask(layers, diag):
    n = len(layers)
    if diag:
        return np.eye(n, dtype=bool)
    return np.array([[layers[i] == layers[j] for j in range(n)] for i in range(n)])


def theta_metric(prog):
    tp, exprs = base.theta_program(prog)
    g, err = fs_metric(tp)
    return g, err, exprs


# ------------------------------------------------------------------------------------------------ checks

_REJECT = [
    ("ValueError", "not known and non-unitary operations deactivated"),
    ("WireError", "auxiliary wire"),
]


def _exception(e, rerun, feats):
    from pv.engine import _origin

    for n, pat in _REJECT:
        if type(e).__name__ == n and pat in str(e):
            raise Reject(pat) from None
    origin, where = _origin(e.__traceback__)
    if origin != "sut":
        raise e
    try:
        rerun()
    except Exception:  # noqa: BLE001
        raise Viol("unexpected-exception", f"{type(e).__name__}: {e}"[:600], sig=f"{type(e).__name__}@{where}",
                   features=dict(feats, exc=type(e).__name__, where=where)) from None
    raise Reject("exception not reproduced on a second evaluation (state left by an earlier case)") from None


def _compare(spec, got, exp, err, sig, feats, what):
    got = np.asarray(got, dtype=float) if not np.iscomplexobj(got) else np.asarray(got)
    if got.shape != exp.shape:
        raise Viol("shape", f"{sig}: result shape {got.shape}, expected {exp.shape}", sig=sig + ":shape", features=feats)
    if np.iscomplexobj(got):
        if np.abs(got.imag).max() > 1e-9:
            raise Viol("complex", f"{sig}: imaginary part {np.abs(got.imag).max():.2e}", sig=sig + ":complex", features=feats)
        got = got.real
    scale = max(1.0, float(np.abs(exp).max()))
    d = np.abs(got - exp)
    if not np.all(np.isfinite(got)) or d.max() > TOL * scale + 10 * err:
        i = np.unravel_index(np.argmax(d), d.shape)
        known_class = any(feats.get(k) for k in ("phaseshift_cross_term", "ctrl_rotation_cov", "qfi_expanded_gate", "adjoint_jax_multipar", "argnum_vs_expansion"))
        if not known_class and not fresh.confirm(ID, spec, ("value", sig.split(":")[0])):
            raise Reject("violation not reproduced in a fresh process (state left by an earlier case)")
        raise Viol("value", f"{sig} {what}: g[{i[0]},{i[1]}] = {got[i]:.9g}, reference {exp[i]:.9g}; got={np.round(got, 6).tolist()} ref={np.round(exp, 6).tolist()}",
                   sig=sig, features=feats)


def _trainable_names(prog):
    return {o["op"] for o in prog["ops"] if any(not hybrid.is_const(e) for e in hybrid.op_exprs(o))}


# gates that adjoint_metric_tensor / metric_tensor expand (several parameters or a generator with several terms)
EXPANDED = {"Rot", "U2", "U3", "CRot", "IsingXY", "SingleExcitation"}


def _finding_features(prog, fn, approx, allow_nonunitary, iface=None):
    names = _trainable_names(prog)
    mt = fn == "metric_tensor"
    phase = bool(names & {"PhaseShift", "U1", "U2", "U3"})  # U1/U2/U3 expand into PhaseShift gates
    projector = phase or bool(names & {"CRX", "CRY", "CRZ", "ControlledPhaseShift"})
    return {
        # F14: off-block entries with a trainable PhaseShift in the Hadamard-test part
        "phaseshift_cross_term": mt and approx is None and allow_nonunitary and phase,
        # F15: cov_matrix ignores the wire order of observables; generators containing a projector are not permutation symmetric
        "ctrl_rotation_cov": mt and (approx is not None or allow_nonunitary) and projector,
        # F16: quantum_fisher on a QNode with a multi-parameter gate (its expansion changes the parameter set)
        "qfi_expanded_gate": fn == "quantum_fisher" and bool(names & EXPANDED),
        # F17: adjoint_metric_tensor under jax leaves a trainable multi-parameter gate (Rot) unexpanded
        "adjoint_jax_multipar": fn in ("adjoint_metric_tensor", "quantum_fisher") and iface == "jax" and bool(names & {"Rot", "U2", "U3", "CRot"}),
    }


def _argnum_vs_expansion(prog, kw, train):
    """F18 feature, computed from the input only. `argnum` is documented as indices into the parameters of the tape that is handed to
    qp.metric_tensor, but the transform looks them up in its internally expanded tape. With approx=None, allow_nonunitary=False a
    *constant* PhaseShift(c) is expanded into RZ(c) GlobalPhase(-c/2) (two parameters instead of one), which moves every later
    tape-parameter index up by one. Returns "rejected" when an index of argnum is then no trainable index of the expanded tape
    (ValueError), "other-selection" when all are but they designate other gates (silently other rows/columns), else False."""
    if kw["argnum"] is None or kw["approx"] is not None or kw["allow_nonunitary"]:
        return False
    moved, k, shift = {}, 0, 0
    for o in prog["ops"]:
        exprs = hybrid.op_exprs(o)
        for _ in exprs:
            moved[k] = k + shift
            k += 1
        if o["op"] == "PhaseShift" and exprs and all(hybrid.is_const(e) for e in exprs):
            shift += 1
    sel = [train[i] for i in kw["argnum"]]
    new_train = [moved[t] for t in train]
    if any(a not in new_train for a in sel):
        return "rejected"
    if [t in sel for t in train] != [t in sel for t in new_train]:
        return "other-selection"
    return False


def _gate_labels(prog):
    return sorted({"gate:" + ("kept" if o["op"] in KEPT or o["op"] in ("MultiRZ", "PauliRot") else o["op"]) for o in prog["ops"]
                   if any(not hybrid.is_const(e) for e in hybrid.op_exprs(o))})


def _check_tape(spec):
    import pennylane as qp

    prog, kw = spec["prog"], spec["kw"]
    n = len(prog["args"])
    tr = trainable_ops(prog)
    order = [e[1] for _, e in tr]
    if sorted(order) != list(range(n)):
        raise Reject("an input is unused or used twice")
    from pennylane import numpy as pnp

    vals = hybrid.arg_values(prog)
    ops, train, k = [], [], 0
    for o in prog["ops"]:
        # trainable parameters are marked the documented way (requires_grad=True); the transform re-derives trainability after expansion
        ops.append(hybrid.build_pl_op(hybrid.subst(o, lambda e: float(hybrid.ev(e, vals)) if hybrid.is_const(e)
                                                   else pnp.array(float(hybrid.ev(e, vals)), requires_grad=True))))
        for e in hybrid.op_exprs(o):
            if not hybrid.is_const(e):
                train.append(k)
            k += 1
    tape = qp.tape.QuantumScript(ops, [hybrid.specs.build_meas(m) for m in prog["meas"]], trainable_params=train)
    approx = kw["approx"]
    aux = base.aux_label(prog)
    call = {"approx": approx}
    if approx is None:
        call["allow_nonunitary"] = kw["allow_nonunitary"]
        if kw["aux"] == "explicit":
            call["aux_wire"] = aux
        elif kw["aux"] == "device_wires":
            call["device_wires"] = qp.wires.Wires([hybrid.specs.wire(w) for w in prog["wires"]] + [aux])
    if kw["argnum"] is not None:
        call["argnum"] = [train[i] for i in kw["argnum"]]  # tape-parameter indices
    dev = qp.device("default.qubit")
    if approx is None and not kw["allow_nonunitary"] and "PhaseShift" in _trainable_names(prog):
        raise Reject("allow_nonunitary=False expands PhaseShift: the tape-level result refers to the expanded parameters")
    feats = {"kind": "tape", "approx": approx or "full", "allow_nonunitary": kw["allow_nonunitary"], "argnum": kw["argnum"] is not None,
             **_finding_features(prog, "metric_tensor", approx, kw["allow_nonunitary"]),
             "argnum_vs_expansion": _argnum_vs_expansion(prog, kw, train)}
    sig = f"metric_tensor:tape:{approx or 'full'}"

    def run():
        tapes, fn = qp.metric_tensor(tape, **call)
        return fn(dev.execute(tapes))

    try:
        got = run()
    except Exception as e:  # noqa: BLE001
        _exception(e, run, feats)
    g, err, _ = theta_metric(prog)  # ordered by tape position == order of `tr`
    layers = layer_partition(prog)
    mask = np.ones((n, n), dtype=bool) if approx is None else block_mask(layers, approx == "diag")
    if kw["argnum"] is not None:
        keep = np.zeros(n, dtype=bool)
        keep[kw["argnum"]] = True
        mask = mask & np.outer(keep, keep)
    exp = g * mask
    _compare(spec, to_np(got), exp, err, sig, feats, f"kw={ {k: v for k, v in call.items() if k != 'device_wires'} }")
    off = g * ~block_mask(layers, False)
    nt = len(set(layers)) >= 2 and float(np.abs(off).max()) > 1e-6
    return Result(nt, ["tape", f"approx:{approx or 'full'}", f"layers={len(set(layers))}", f"n={n}"] + (["argnum"] if kw["argnum"] is not None else [])
                  + (["allow_nonunitary=False"] if approx is None and not kw["allow_nonunitary"] else []) + _gate_labels(prog))


def _check_qnode(spec):
    import pennylane as qp

    prog, fn, approx, iface = spec["prog"], spec["fn"], spec["approx"], spec["iface"]
    k = prog["args"][0]["shape"][0]
    base._setup_frameworks(iface)
    cfg = {"iface": iface, "method": "parameter-shift", "gk": {}, "devwires": "spare"}
    circuit = base.build_qnode(prog, cfg)
    x = base._to_iface(hybrid.arg_values(prog)[0], iface)
    feats = {"kind": "qnode", "fn": fn, "approx": approx or "full", "iface": iface, "allow_nonunitary": spec["allow_nonunitary"],
             **_finding_features(prog, fn, approx, spec["allow_nonunitary"], iface)}
    sig = f"{fn}:{approx or 'full'}:{iface}"

    def run():
        if fn == "metric_tensor":
            kw = {"approx": approx}
            if approx is None:
                kw["allow_nonunitary"] = spec["allow_nonunitary"]
            return qp.metric_tensor(circuit, **kw)(x)
        if fn == "adjoint_metric_tensor":
            return qp.adjoint_metric_tensor(circuit)(x)
        return qp.gradients.quantum_fisher(circuit)(x)

    try:
        got = run()
    except Exception as e:  # noqa: BLE001
        _exception(e, run, feats)
    gx, err = fs_metric(prog)
    if approx is None:
        exp = gx * (4.0 if fn == "quantum_fisher" else 1.0)
        layers = layer_partition(prog)
    else:
        gth, err2, exprs = theta_metric(prog)
        layers = layer_partition(prog)
        C = base.classical_jacobian(prog, exprs)
        exp = C.T @ (gth * block_mask(layers, approx == "diag")) @ C
        err = max(err, err2)
    _compare(spec, to_np(got), exp, err, sig, feats, "")
    gth, _, _ = theta_metric(prog)
    off = gth * ~block_mask(layers, False)
    nt = len(set(layers)) >= 2 and float(np.abs(off).max()) > 1e-6
    pre = any(e[0] not in ("arg", "const") for e in hybrid.program_exprs(prog))
    shared = len({str(e) for _, e in trainable_ops(prog)}) < len(trainable_ops(prog)) or any(len(hybrid.deps(e)) > 1 for _, e in trainable_ops(prog))
    return Result(nt, ["qnode", f"fn:{fn}", f"approx:{approx or 'full'}", f"iface:{iface}", f"layers={len(set(layers))}"] + (["preprocessing"] if pre else [])
                  + (["shared-input"] if shared else []) + _gate_labels(prog))


def check(spec):
    if not trainable_ops(spec["prog"]):
        raise Reject("no trainable gate parameter")
    return _check_tape(spec) if spec["kind"] == "tape" else _check_qnode(spec)


def selftest():
    fd.selftest()
    hybrid.selftest()
    # RX(a) RY(b) on |0>: g = diag(1/4, cos(a)^2/4)
    prog = {"args": [{"shape": [], "val": [0.7]}, {"shape": [], "val": [-0.4]}], "wires": [0],
            "ops": [{"op": "RX", "p": [["arg", 0, None]], "w": [0]}, {"op": "RY", "p": [["arg", 1, None]], "w": [0]}], "meas": []}
    g, err = fs_metric(prog)
    assert np.allclose(g, np.diag([0.25, np.cos(0.7) ** 2 / 4]), atol=1e-9), g
    assert layer_partition(prog) == [0, 1]
    # the docstring example: RX(0) RY(0) CNOT(0,1) RZ(1) RZ(0) -> blocks {0}, {1}, {2, 3}
    ex = {"args": [{"shape": [4], "val": [0.1, 0.2, 0.4, 0.5]}], "wires": [0, 1], "meas": [],
          "ops": [{"op": "RX", "p": [["arg", 0, 0]], "w": [0]}, {"op": "RY", "p": [["arg", 0, 1]], "w": [0]}, {"op": "CNOT", "p": [], "w": [0, 1]},
                  {"op": "RZ", "p": [["arg", 0, 2]], "w": [1]}, {"op": "RZ", "p": [["arg", 0, 3]], "w": [0]}]}
    assert layer_partition(ex) == [0, 1, 2, 2]
    g, _ = fs_metric(ex)
    doc = np.array([[0.25, 0.0, -0.0497, -0.0497], [0.0, 0.2475, 0.0243, 0.0243], [-0.0497, 0.0243, 0.0123, 0.0123], [-0.0497, 0.0243, 0.0123, 0.0123]])
    assert np.abs(g - doc).max() < 6e-5, g
