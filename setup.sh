#!/bin/sh
# offline setup: make sure hypothesis is importable by /venv/bin/python
cd "$(dirname "$0")" || exit 2
/venv/bin/python -c "import hypothesis" 2>/dev/null || \
  /venv/bin/pip install --no-index --find-links /opt/veriftools/wheels hypothesis || exit 2
/venv/bin/python -c "import hypothesis, pennylane; print('setup ok', hypothesis.__version__, pennylane.__version__)"
